#!/bin/sh
# usage: seed_verify.sh <tag> <worktree with MUT/patch.diff MUT/demo.rs>   (dev helper for seeded changes)
# 1. in the scratch worktree: suite passes with the patch, demo fails with it and passes without
# 2. copies the change to /verif/seeded/<tag>/
TAG=$1; WT=$2
export CARGO_NET_OFFLINE=true CARGO_TARGET_DIR=$WT/target
cd $WT || exit 2
git checkout -q -- src; rm -f tests/mut_demo.rs
git apply MUT/patch.diff || { echo "patch does not apply"; exit 2; }
FEAT=""; grep -q "verif" MUT/demo.rs && FEAT="--features verif-hooks"
echo "== baseline suite with patch"; cargo test --workspace --no-fail-fast --offline 2>&1 | grep -E "^test result|FAILED|failed" | awk '{p+=$4; f+=$6} END {print "passed", p, "failed", f}'
cp MUT/demo.rs tests/mut_demo.rs
echo "== demo with patch"; cargo test --offline $FEAT --test mut_demo 2>&1 | grep -E "^test result|panicked" | head -5
git checkout -q -- src
echo "== demo without patch"; cargo test --offline $FEAT --test mut_demo 2>&1 | grep -E "^test result|panicked" | head -5
rm -f tests/mut_demo.rs
mkdir -p /verif/seeded/$TAG; cp MUT/patch.diff MUT/demo.rs /verif/seeded/$TAG/; cp MUT/README.md /verif/seeded/$TAG/agent_README.md 2>/dev/null
echo done
