#!/bin/sh
# usage: goal.sh File.v LINE  -> shows the proof state after LINE (dev helper)
F=$1; N=$2
cd /verif/coq
head -n $N $F > /tmp/_goal_.v
echo 'Show. ' >> /tmp/_goal_.v
echo 'Abort All.' >> /tmp/_goal_.v
timeout 120 coqc -Q . GGRS /tmp/_goal_.v 2>&1 | tail -${3:-40}
