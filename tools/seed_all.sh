#!/bin/sh
# dev helper: re-applies every seeded change to /repo (one at a time), runs the quick check of the property it
# breaks, reverts, and prints one line per change: caught with a failing input / caught without / MISSED.
# /repo must be clean and nothing else may be using it.
cd /verif
git -C /repo status --short | grep -q . && { echo "/repo not clean"; exit 2; }
for d in seeded/*/; do
  tag=$(basename $d)
  prop=$(python3 -c "import json;print(json.load(open('$d/meta.json'))['breaks_property'])")
  git -C /repo apply /verif/$d/patch.diff || { echo "$tag: patch does not apply"; continue; }
  out=$(tools/check $prop quick 2>&1)
  git -C /repo checkout -- .
  if echo "$out" | grep -q "VIOLATION property=$prop .*no-failing-input-found"; then echo "$tag ($prop): caught, no failing input";
  elif echo "$out" | grep -q "VIOLATION property=$prop"; then echo "$tag ($prop): caught with a failing input";
  else echo "$tag ($prop): MISSED"; fi
done
git -C /repo status --short
