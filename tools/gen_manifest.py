#!/usr/bin/env python3
"""Writes MANIFEST.json from the per-property table below (kept in one place so that the level
claimed always matches what coq/props/Cxx.v actually contains)."""
import json, os, re
ROOT = os.path.normpath(os.path.join(os.path.dirname(os.path.abspath(__file__)), ".."))
TB = ("Trusted: Coq 8.16.1 kernel; axioms per Print Assumptions (listed in the evidence file); tools/consts.py; extraction "
      "(ExtrOcamlBasic only) + ocaml driver; Rust harness + verif-hooks wrappers; virtual clock / in-memory network / hook RNG "
      "in place of OS clock, UDP and rand. ")
SIM = ("Implementation-side monitors on the L4 simulation (real sessions, virtual clock, scripted per-packet faults) search for a "
       "concrete failing history and decide nothing by themselves. ")
P = {}
P["C14"] = dict(ref="5 (C14), 6 (F1)", tech="Coq proof (induction over the encoder state machine / token structure) + extracted-model differential testing",
  text="Machine-checked Coq theorems over a line-by-line Gallina model of varinteger, bitfield-rle and compression.rs: C14_roundtrip (every reference, every sequence of inputs of any lengths <= 65535 within one legitimate packet: decode(encode x) = x), C14_decode_total (for EVERY byte string and both build profiles the decoder never panics; the model has explicit Panic outcomes for index errors and u64/usize overflow) and C14_decode_bounded (expanded buffer, decoded bytes and decoded input count are bounded by constants regenerated from the source), plus C14_unvalidated_refuted (the pre-repair decoder panics; witness replayed on the code). The tie to the code is checked every run by constants regenerated from src and by a differential run of the extracted model against the real codec (debug and release) on seeded structured/mutated payloads and all strings up to length 2 (quick) / 3 (thorough); implementation-side monitors (round trip, no panic, peak allocation) search for a replay.",
  note=TB + "Modelled not verified: usize = 64 bit; Vec allocation behaviour of std (the theorem bounds the sizes of the values built; the harness's counting allocator measures the real peak); the fill pass of bitfield_rle::decode is modelled on lists (append) instead of index writes.")
EXPL = "No theorem is registered for this property yet (coq/props/%s.v holds none): the check is the implementation-side search only - %s. It is listed so that the search runs on every change; the proof side is being built (DESIGN.md section 5)."
SIMPROPS = {
 "C01": "C01's space (2-4 peers, 1-2 local players each, delays, windows >= 1, sparse on/off, both predictors, loss/dup/delay/reorder, long histories wrapping every ring): every peer's final simulation of every confirmed frame is compared with the owner's real inputs (reference delay semantics) and peers are compared with each other",
 "C02": "a game stub executes every request list with full checking (save names the game frame, load names an earlier frame whose cell holds the state saved for it on the current timeline, frame delta 0/1, save before the first advance) over C01's space plus stalls, spectators and two-peer disconnects",
 "C03": "every (value, status) of every AdvanceFrame is checked at simulation time against what had been received (Confirmed/Predicted/Disconnected truthfulness, predictor applied to the newest received input, local always Confirmed, confirmed_frame() monotone, finality of confirmed frames)",
 "C04": "first simulations are checked against the newest frame held from every connected player, loads against the window, lockstep sessions for saves/loads/predicted inputs, over windows 0..=12 with starved peers",
 "C05": "bounded-exhaustive fault placement (quick: <= 2 faults on the first 10 packets of player and spectator links, windows 0/1/8) plus random burst outages and ack-loss runs shorter than the timeout, then a quiet tail in which every session must advance and nobody may be disconnected",
 "C06": "spectator frames are compared with the host's confirmed timeline (order, values, Disconnected flags, never beyond the host's confirmed frame, catch-up limits), with pauses, loss and host-side disconnects; runs with and without spectators must give the players identical request lists and states",
 "C07": "two-peer sessions in which the remote dies at every kind of moment: NetworkInterrupted/Disconnected are checked against the virtual clock (not early, not missing, once, payload), and the survivor's final timeline (real inputs up to the last received frame, default+Disconnected afterwards), with spectators",
 "C08": "forged packets of the listed kinds (wrong status count, negative start frame, arbitrary payloads, wrong-size frames, foreign magic, unknown address) injected at every protocol state into a running two-peer session; no panic and the players' observables must equal those of the clean twin run",
 "C09": "deterministic games with detection on (intervals 1..=12, loss/reorder, sparse on/off): any DesyncDetected is a hit; games that diverge from a frame on: both peers must report a frame at or after it with the checksums they really saved",
 "C10": "three-peer sessions in which one peer dies with uneven delivery of its last packets: survivors must not panic and must agree on the dropped player's inputs and statuses; histories in the recorded class survivor_view_gap>=1 print KNOWN-FINDING",
 "C11": "set_input_delay sequences (values 0..=6, repeated changes between two inputs, decrease-then-increase, changes while stalled, several local players with different delays, spectators): every peer's confirmed timeline is compared with a reference implementation of the documented delay semantics; stalls, panics and stranded inputs are hits",
 "C12": "handshakes under loss/dup/reorder/stray replies, poll cadences, silences around the notify delay and the timeout, never-drained sessions: per-address event grammar automaton, Running iff every endpoint is past the handshake, NotSynchronized before, no interruption for sessions that merely poll, event queue <= 100",
 "C17": "every scenario of C01's space is executed twice in one process (fresh hash states for every map, different handshake nonces and magic numbers); request lists, game states and per-address event sequences must be identical",
 "C18": "long sessions (thousands of frames, all topologies, all-local sessions, never-drained events, spectators that stop acknowledging): every buffer size reported by the hook accessors is checked against its configuration-only bound after every call",
}
for k, v in SIMPROPS.items():
    P[k] = dict(ref="5 (%s)" % k, tech="implementation-side search on the L4 simulation (proof side pending)", text=v, note=TB + SIM, sim=True)

def theorems(pid):
    f = os.path.join(ROOT, "coq", "props", pid + ".v")
    return re.findall(r"^\s*Theorem\s+(\w+)", open(f).read(), re.M) if os.path.exists(f) else []

def main():
    extra = {}
    ex = os.path.join(ROOT, "tools", "manifest_extra.json")
    if os.path.exists(ex):
        extra = json.load(open(ex))
    P.update({k: v for k, v in extra.items()})
    props = [json.loads(l) for l in open(os.path.join(ROOT, "properties.jsonl"))]
    checks, na = [], []
    for p in props:
        pid = p["id"]
        have = os.path.exists(os.path.join(ROOT, "tools", "vlib", "p_%s.py" % pid))
        if pid not in P or not have:
            na.append({"property_id": pid, "reason": "not yet claimed: model, theorems and correspondence for this property are still being built (DESIGN.md section 10); nothing is asserted about it"})
            continue
        c = P[pid]
        th = theorems(pid)
        if th:
            cat, text = "proof", c.get("proof_text") or c["text"]
        else:
            cat, text = "exploration", EXPL % (pid, c["text"])
        checks.append({"property_id": pid, "quick_cmd": "tools/check %s quick" % pid, "thorough_cmd": "tools/check %s thorough" % pid,
                       "evidence_file": "/verif/evidence/%s.json" % pid, "replay_cmd_template": "tools/check %s --replay {path}" % pid,
                       "engine": "coq+harness", "level_claimed": {"category": cat, "text": text, "design_ref": "DESIGN.md section " + c["ref"]},
                       "level_note": c["note"], "technique": c["tech"] if th or not c.get("sim") else "seeded scenario search with implementation-side monitors (no theorem yet)"})
    claimed = [c["property_id"] for c in checks]
    m = {"version": 1, "setup_cmd": "tools/setup",
         "hooks": {"guard": "cargo feature verif-hooks", "enable": "harness/Cargo.toml: ggrs = { path = \"/repo\", features = [\"verif-hooks\"] }",
                   "baseline_off_cmd": "cd /repo && cargo test --workspace --no-fail-fast --offline",
                   "source_commits": ["6876aad", "7427bc7", "a1582bf"], "add_only": False},
         "engines": [{"name": "coq", "path": "/verif/coq", "serves_properties": claimed, "kind_free_text": "Coq 8.16.1 development: executable Gallina models + theorems (props/Cxx.v hold statements only)"},
                     {"name": "harness", "path": "/verif/harness", "serves_properties": claimed, "kind_free_text": "Rust crate driving the real code through the verif-hooks feature: component levels (codec, builder, ...) and the L4 multi-session simulation with monitors"},
                     {"name": "driver", "path": "/verif/ocaml", "serves_properties": claimed, "kind_free_text": "OCaml driver around the extracted models (same op scripts as the harness)"}],
         "checks": checks,
         "notes": "add_only=false: the hook commits rewrite exactly two import lines (`use instant::{Duration, Instant};` in network/protocol.rs and sessions/p2p_session.rs become cfg-switched imports); everything else is added code behind `#[cfg(feature = \"verif-hooks\")]`. Genuine defects repaired by unguarded `fix:` commits and recorded findings are listed in known_findings.json.",
         "not_applicable": na}
    json.dump(m, open(os.path.join(ROOT, "MANIFEST.json"), "w"), indent=1)
    print("claimed:", claimed, "\nnot claimed:", [x["property_id"] for x in na])

if __name__ == "__main__":
    main()
