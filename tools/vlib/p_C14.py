"""C14 — the input codec round-trips every input and decodes total."""
import itertools, json, re
from . import core

HEX = lambda b: "".join("%02x" % x for x in b) or "-"
PEAK = re.compile(r" #peak=(\d+)$")

def strip(line):
    return PEAK.sub("", line)

def gen_bytes(rng, n, style):
    if style == 0:      # mostly 0x00 / 0xFF runs with literals in between
        out = []
        while len(out) < n:
            k = rng.choice([1, 1, 2, 3, 5, 8, 31, 32, 33, 40])
            b = rng.choice([0, 0, 255, 255, rng.randrange(256), 1, 128, 127])
            out += [b] * k
        return out[:n]
    if style == 1:      # uniformly random
        return [rng.randrange(256) for _ in range(n)]
    return [rng.choice([0, 255, 1, 128]) for _ in range(n)]   # small alphabet

def gen_enc_case(rng, big=False):
    style = rng.randrange(3)
    rl = rng.choice([0, 0, 1, 2, 4, 4, 4, 8, 13])
    ref = gen_bytes(rng, rl, rng.randrange(3))
    cnt = rng.choice([0, 1, 1, 2, 3, 4, 6, 9])
    ins = []
    for _ in range(cnt):
        if big and rng.random() < 0.3:
            l = rng.choice([127, 128, 129, 300, 2047, 2048, 2049, 5000])
        else:
            l = rng.choice([0, 0, 1, 2, 3, 4, 4, 4, 4, 5, 8, 12, 31, 32, 33, 70]) if rng.random() < 0.8 else rl
        ins.append(gen_bytes(rng, l, style))
    return ref, ins

def mutate(rng, data):
    d = list(data)
    k = rng.randrange(6)
    if k == 0 and d:
        i = rng.randrange(len(d)); d[i] ^= 1 << rng.randrange(8)
    elif k == 1 and d:
        d = d[:rng.randrange(len(d))]
    elif k == 2:
        d = d + [rng.randrange(256) for _ in range(rng.randrange(1, 4))]
    elif k == 3 and d:
        i = rng.randrange(len(d)); d[i] = rng.choice([0x80, 0xff, 0x00, 0x81, 0x7f])
    elif k == 4:
        i = rng.randrange(len(d) + 1); d[i:i] = [rng.choice([0x80, 0xff, 0x81, 0xfe])] * rng.randrange(1, 11)
    else:
        d = [rng.randrange(256) for _ in range(rng.randrange(0, 12))]
    return d

def venc(n):
    out = []
    while n >= 128:
        out.append((n & 127) | 128); n >>= 7
    out.append(n)
    return out

BIG_RUNS = [(1 << 61) - 1, (1 << 61) - 2, 1 << 60, (1 << 62) - 1, (1 << 32), (1 << 32) - 1, 8454273, 8454274, 8454272, 1 << 23, 1 << 20]
def gen_token_payload(rng):
    """structured adversarial payload: a sequence of well-formed bitfield-rle tokens whose claimed
    lengths are chosen around the arithmetic and size limits (sums near 2^64, near MAX_DECODED_LEN)"""
    out = []
    k = rng.choice([1, 2, 3, 7, 8, 9, 9, 10, 12, 16, 17])
    mode = rng.randrange(4)
    for _ in range(k):
        r = rng.random()
        if mode == 0 or r < 0.55:          # run token
            l = rng.choice(BIG_RUNS) if (mode in (0, 1) or rng.random() < 0.4) else rng.choice([0, 1, 2, 31, 32, 33, 200, 5000])
            if mode == 0:
                l = rng.choice(BIG_RUNS[:4])
            out += venc(l * 4 + 1 + rng.choice([0, 2]))
        else:                               # literal token, sometimes lying about its length
            l = rng.choice([0, 1, 2, 3, 5, 9])
            out += venc(2 * l) + [rng.randrange(1, 255) for _ in range(l if rng.random() < 0.8 else max(0, l - 1))]
    if mode == 3 and rng.random() < 0.5:    # wrap exactly to a small value: 8*(2^61-1) + 12 = 2^64 + 4
        out = venc(((1 << 61) - 1) * 4 + 1) * 8 + venc(12 * 4 + 1)
    return out

CORPUS_DEC = [
    ("00000000", "80"),                                   # F1: truncated varint -> index panic
    ("-", "ffffffffffffffffffff01"),                     # F1: 11-byte varint -> multiply overflow (dev profile)
    ("-", "8180808004"),                                  # F1: 5 bytes expand to 2^28 bytes / 2^27 inputs
    ("-", "ffffffffffffffff7f"),                          # 9-byte varint, largest accepted shape
    ("-", "ffffffffffffffffff01"),                        # 10-byte varint
    ("00000000", "0401"), ("-", "-"), ("01020304", "00"), ("-", "0a"), ("-", "05"), ("-", "fdff03"),
    ("-", "fdffffffffffffff7f" * 9),                      # nine maximal run tokens: the claimed lengths sum past 2^64
    ("-", "fdffffffffffffff7f" * 8 + "31"),               # ... wrapping to 4 in a 64-bit accumulator
]

def claimed_expansion(payload_hex):
    """bytes the payload claims to expand to (sum of run and literal lengths), computed here so that the cost of
    the unary model does not depend on what the implementation under test makes of the payload"""
    if payload_hex == "-":
        return 0
    try:
        b = bytes.fromhex(payload_hex)
    except ValueError:
        return 0
    i, total = 0, 0
    while i < len(b) and total <= (1 << 40):
        v, shift = 0, 0
        while i < len(b):
            c = b[i]; i += 1
            v |= (c & 127) << shift; shift += 7
            if c < 128 or shift > 70:
                break
        if v & 1:
            total += v >> 2
        else:
            n = v >> 1
            total += n; i += n
    return total

def alloc_limit(ctx):
    return 4 * ctx.consts.get("MAX_DECODED_LEN", 8454273) + (1 << 20)

def check_dec_results(ctx, script, impl, tag):
    """Implementation-side monitor for the decode stream: no panic, no crash, bounded allocation."""
    limit = alloc_limit(ctx)
    st = ctx.cov["monitors"].setdefault("decode_" + tag, {"ops": 0, "ok": 0, "err": 0, "max_peak": 0})
    for op, r in zip(script, impl):
        st["ops"] += 1
        m = PEAK.search(r)
        peak = int(m.group(1)) if m else 0
        st["max_peak"] = max(st["max_peak"], peak)
        body = strip(r)
        if body.startswith("ok"):
            st["ok"] += 1
        elif body == "err":
            st["err"] += 1
        if body.startswith("panic"):
            ctx.hit("decode-panic", "compression::decode panics on `%s` (%s build)" % (op, tag), {"level": "codec", "op": op, "profile": tag})
        elif body.startswith("crash") or body.startswith("noresult"):
            ctx.hit("decode-abort", "compression::decode aborts the process (allocation beyond 1 GiB or fatal error) on `%s` (%s build)" % (op, tag), {"level": "codec", "op": op, "profile": tag})
        elif peak > limit:
            ctx.hit("decode-alloc", "compression::decode allocates %d bytes (> %d) on `%s`" % (peak, limit, op), {"level": "codec", "op": op, "profile": tag})

def run(ctx):
    ctx.needed_consts = ["MAX_DECODED_LEN", "MAX_DECODED_INPUTS", "PENDING_OUTPUT_SIZE"]
    ctx.proof_side()
    profiles = ("debug", "release")
    if not ctx.build_harness(profiles):
        return
    rng = ctx.rng
    dist = ctx.cov["input_distribution"]
    # ---- phase 1: encode stream (structured, mostly valid) ----
    n_enc = 12000 if ctx.thorough else 2500
    cases = [gen_enc_case(rng, big=(i % 10 == 0)) for i in range(n_enc)]
    # small exhaustive family: alphabet {00,ff,01}, reference length 2, up to 2 inputs of length <= 3
    alpha = [0, 255, 1]
    words = [list(w) for l in range(0, 4) for w in itertools.product(alpha, repeat=l)]
    for ref in ([0, 0], [255, 1]):
        for a in words:
            cases.append((ref, [a]))
        for a in words[:13]:
            for b in words:
                cases.append((ref, [a, b]))
    enc_script = ["enc %s %s" % (HEX(r), " ".join(HEX(i) for i in ins)) if ins else "enc %s" % HEX(r) for r, ins in cases]
    dist["enc_cases"] = len(cases)
    dist["enc_input_counts"] = {}
    for r, ins in cases:
        k = str(len(ins)); dist["enc_input_counts"][k] = dist["enc_input_counts"].get(k, 0) + 1
    impl_enc, model_enc = ctx.correspond("codec", enc_script, "debug", canon=strip, label="encode")
    # ---- phase 2: decode stream ----
    dec_ops, expect = [], {}
    for (r, ins), res in zip(cases, impl_enc):
        if res.startswith("ok "):
            payload = res[3:]
            op = "dec %s %s" % (HEX(r), payload)
            dec_ops.append(op)
            expect[len(dec_ops) - 1] = ins
            ctx.count(sample={"ref": HEX(r), "inputs": [HEX(i) for i in ins], "encoded": payload} if len(ins) > 2 else None,
                      nontrivial_key=("rt", payload) if ins else None)
        else:
            ctx.hit("encode-panic", "compression::encode failed on %s" % enc_script[len(expect)], {"level": "codec", "op": enc_script[len(expect)]})
    n_rt = len(dec_ops)
    # malformed stream: corpus first, mutations of real payloads, random bytes, exhaustive short strings
    for r, d in CORPUS_DEC:
        dec_ops.append("dec %s %s" % (r, d))
    base_payloads = [bytes.fromhex(o.split()[2]) if o.split()[2] != "-" else b"" for o in dec_ops[:n_rt:7]]
    n_mut = 60000 if ctx.thorough else 8000
    for i in range(n_mut):
        p = list(base_payloads[rng.randrange(len(base_payloads))])
        for _ in range(rng.choice([1, 1, 2, 3])):
            p = mutate(rng, p)
        dec_ops.append("dec %s %s" % (HEX(gen_bytes(rng, rng.choice([0, 4, 4, 7]), 2)), HEX(p)))
    n_tok = 20000 if ctx.thorough else 3000
    for i in range(n_tok):
        dec_ops.append("dec %s %s" % (HEX(gen_bytes(rng, rng.choice([0, 4]), 2)), HEX(gen_token_payload(rng))))
    dist["dec_token_sequences"] = n_tok
    maxlen = 3 if ctx.thorough else 2
    refs = ["-", "01ff0000"]
    n_exh = 0
    for l in range(0, maxlen + 1):
        for w in itertools.product(range(256), repeat=l):
            hx = HEX(w)
            for r in (refs if l < 3 else refs[:1]):
                dec_ops.append("dec %s %s" % (r, hx)); n_exh += 1
    dist["dec_roundtrip"] = n_rt; dist["dec_mutated"] = n_mut; dist["dec_exhaustive_upto_len"] = maxlen
    dist["dec_exhaustive_cases"] = n_exh; dist["dec_corpus"] = len(CORPUS_DEC)
    for prof in profiles:
        # the model (unary numbers: a claimed run length of 2^21 costs tens of ms) sees every case except the expensive ones and, of the 16.7 M
        # three-byte strings of the thorough tier, every 2003rd (the implementation sees all of them, with the
        # totality/bound monitors of check_dec_results; the theorem C14_decode_total covers all strings anyway)
        first3 = len(dec_ops) - 256 ** 3 if maxlen >= 3 else len(dec_ops)
        counter = [0]      # correspond() asks the filter once per op, in order
        def small(op, line):
            i = counter[0]; counter[0] += 1
            if i >= first3 and (i - first3) % 2003 != 0:
                return False
            if claimed_expansion(op.split()[2]) > 200000:
                return False
            m = PEAK.search(line)
            return (not m) or int(m.group(1)) <= 200000
        impl, model = ctx.correspond("codec", dec_ops, prof, canon=strip, label="decode", model_filter=small)
        check_dec_results(ctx, dec_ops, impl, prof)
        # round-trip monitor (independent of the model)
        for idx, ins in expect.items():
            want = "ok " + (",".join(HEX(i) for i in ins) if ins else ".")
            if strip(impl[idx]) != want and not strip(impl[idx]).startswith(("panic", "crash")):
                ctx.hit("roundtrip", "decode(encode(x)) != x for `%s` (%s build): got %s" % (enc_script[idx], prof, strip(impl[idx])[:80]),
                        {"level": "codec", "op": enc_script[idx], "profile": prof})
        outcomes = {}
        for r in impl:
            k = strip(r).split(" ")[0]; outcomes[k] = outcomes.get(k, 0) + 1
        dist["dec_outcomes_" + prof] = outcomes
        for op, r in list(zip(dec_ops, impl))[n_rt:]:
            ctx.count(nontrivial_key=("dec", op) if strip(r).startswith("ok") or "err" in r else None)
    # ---- phase 3: very large legitimate packets (implementation only: the unary-number model needs minutes for
    # them): run lengths and literals beyond 2^19 / 2^20 bytes inside one packet - the round trip must still hold
    big = []
    ff, zz = [255] * 65535, [0] * 65535
    big.append(([0, 0, 0, 0], [ff if i % 2 == 0 else zz for i in range(9)]))          # every delta is 0xFF..: one run of ~590k bytes
    big.append(([1, 2, 3, 4], [ff if i % 2 == 0 else zz for i in range(10)]))
    lit = [0x20] * 0x2020
    big.append(([0, 0], [[(0x20 + (i % 7) + 1)] * 0x2020 for i in range(129)]))      # > 1 MiB of literal bytes (no 00 / ff)
    big.append(([], [[rng.randrange(1, 255) for _ in range(65535)] for _ in range(17)]))
    for ref, ins in big:
        op = "enc %s %s" % (HEX(ref), " ".join(HEX(i) for i in ins))
        for prof in profiles:
            r = ctx.run_impl("codec", [op], prof)[0]
            if not r.startswith("ok "):
                ctx.hit("encode-panic", "compression::encode failed on a %d-input packet of %d-byte inputs (%s build): %s" % (len(ins), len(ins[0]), prof, r[:60]),
                        {"level": "codec", "op": op, "profile": prof}); continue
            r2 = ctx.run_impl("codec", ["dec %s %s" % (HEX(ref), strip(r)[3:])], prof)[0]
            want = "ok " + ",".join(HEX(i) for i in ins)
            if strip(r2) != want:
                ctx.hit("roundtrip", "decode(encode(x)) != x for a packet of %d inputs of %d bytes (%s build): got %s" % (len(ins), len(ins[0]), prof, strip(r2)[:60]),
                        {"level": "codec", "op": op, "profile": prof})
            ctx.count(nontrivial_key=("big", len(ins), len(ins[0]), prof))
    dist["big_roundtrips(impl only)"] = len(big) * len(profiles)
    ctx.cov["rule"] = ("encode cases: seeded structured generator (0x00/0xFF runs across varint boundaries 31/32/33, lengths 0..5000, "
                       "varying/empty inputs) + exhaustive {00,ff,01}^<=3 pairs; decode cases: every encoded payload (round trip), "
                       "corpus of F1 witnesses, seeded mutations of real payloads, structured token sequences whose claimed run lengths sit at the arithmetic and size limits (sums around 2^64 and MAX_DECODED_LEN), and ALL byte strings of length <= %d (implementation: all of them; model: all of length <= 2, every 2003rd of length 3); "
                       "non-trivial = distinct payloads that decode to >=1 input or are rejected with an error" % maxlen)
    ctx.cov["exhaustive"] = False
    ctx.assumptions += ["usize is 64 bit", "bitfield-rle 0.2.1 / varinteger 1.0.6 as vendored in the cargo registry (modelled line by line, correspondence-checked)",
                        "input lengths <= 65535 and wire size <= MAX_DECODED_LEN, count <= MAX_DECODED_INPUTS for the round trip (stated in the theorem)"]

def replay(ctx, path):
    body = json.load(open(path))
    ctx.needed_consts = []
    ctx.consts = {}
    ctx.build_harness(("debug", "release"))
    bad = 0
    for h in body.get("failing_inputs", []):
        rp = h["replay"]
        res = ctx.run_impl("codec", [rp["op"]], rp.get("profile", "debug"))
        print("replay", rp["op"][:120], "->", [r[:120] for r in res])
        m = PEAK.search(res[0]) if res else None
        if res and (res[0].startswith(("panic", "crash")) ):
            bad += 1
        elif m and int(m.group(1)) > alloc_limit(ctx):
            print("  allocates %s bytes (> %d)" % (m.group(1), alloc_limit(ctx))); bad += 1
        elif res and rp["op"].startswith("enc ") and strip(res[0]).startswith("ok "):
            t = rp["op"].split()
            r2 = ctx.run_impl("codec", ["dec %s %s" % (t[1], strip(res[0])[3:])], rp.get("profile", "debug"))
            want = "ok " + (",".join(t[2:]) if len(t) > 2 else ".")
            if not r2 or strip(r2[0]) != want:
                print("  round trip fails: decode ->", (r2[0][:120] if r2 else None)); bad += 1
    if bad:
        print("VIOLATION property=%s replay=%s" % (ctx.pid, path))
    return 1 if bad else 0
