"""C03 — input status is truthful and confirmed inputs are final."""
from . import families as F
from .simprops import generic_run, sizes, sim_replay
from .p_queue import run_queue_correspondence
from .p_session import run_session_correspondence
def both(ctx):
    run_queue_correspondence(ctx)
    run_session_correspondence(ctx)
LABELS = {"C03", "PANIC"}
def run(ctx):
    generic_run(ctx, LABELS, extra=both, plan=[("c01", lambda: F.fam_c01(ctx.rng, sizes(ctx, 300, 3000), tag="c03")), ("death2", lambda: F.fam_death(ctx.rng, sizes(ctx, 80, 600))), ("disc_live", lambda: F.fam_disc_live(ctx.rng, sizes(ctx, 60, 600)))])
def replay(ctx, path):
    return sim_replay(ctx, path, LABELS)
