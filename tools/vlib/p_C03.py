"""C03 — input status is truthful and confirmed inputs are final."""
from . import families as F
from .simprops import generic_run, sizes, sim_replay
from .p_queue import run_queue_correspondence
from .p_session import run_session_correspondence
def both(ctx):
    run_queue_correspondence(ctx)
    script, impl = run_session_correspondence(ctx)
    held_frames_monitor(ctx, script, impl)

def held_frames_monitor(ctx, script, impl):
    """Implementation side only (session level: one real P2PSession, puppet peers).  The newest frame held of a
    player (local_connect_status[h].last_frame, printed as st=<disconnected>:<last_frame>,...) bounds what is handed
    out as Confirmed; if it ever goes DOWN, frames that were handed out as Confirmed real inputs come back as
    Disconnected defaults on the next re-simulation - confirmed inputs are then not final (seeded C03-f)."""
    start, prev, n = 0, None, 0
    for i, (op, r) in enumerate(zip(script, impl)):
        if op.startswith("new"):
            start, prev = i, None
            continue
        st = [t for t in r.split() if t.startswith("st=")]
        if not st:
            continue
        try:
            cur = [int(x.split(":")[1]) for x in st[0][3:].split(",")]
        except (IndexError, ValueError):
            continue
        n += 1
        if prev is not None and len(prev) == len(cur):
            for h, (a, b) in enumerate(zip(prev, cur)):
                if b < a:
                    ctx.hit("held-frame-lowered", "session level: after `%s` the newest frame held of player %d went from %d to %d: frames up to %d, "
                            "handed out as Confirmed real inputs so far, are re-simulated as Disconnected defaults" % (op, h, a, b, a),
                            {"level": "session", "script": script[start:i + 1], "result": r[:200]})
                    prev = None
                    break
        if prev is not None or True:
            prev = cur
    ctx.cov["monitors"]["held_frames"] = {"scenarios": sum(1 for o in script if o.startswith("new")), "ops": n, "frames": 0, "rollbacks": 0,
                                          "hits": sum(1 for h in ctx.hits if h["class"] == "held-frame-lowered"), "wall_s": 0.0}
LABELS = {"C03", "PANIC"}
def run(ctx):
    generic_run(ctx, LABELS, extra=both, plan=[("c01", lambda: F.fam_c01(ctx.rng, sizes(ctx, 300, 3000), tag="c03")), ("death2", lambda: F.fam_death(ctx.rng, sizes(ctx, 80, 600))), ("disc_live", lambda: F.fam_disc_live(ctx.rng, sizes(ctx, 60, 600)))])
def replay(ctx, path):
    return sim_replay(ctx, path, LABELS)
