"""Correspondence of the `endpoint` level (coq/Endpoint.v vs. the real UdpProtocol), shared by the
properties that are anchored in the endpoint model (C05, C07, C08, C12, C18).

    from .p_endpoint import run_endpoint_correspondence
    run_endpoint_correspondence(ctx)

runs the seeded generators of p_endpoint_gen through ctx.correspond("endpoint", ...) in the debug
profile (strict line equality) and fills ctx.cov["input_distribution"]["endpoint"]."""
import time
from . import p_endpoint_gen as G


def _budget(ctx):
    # (handshake_link, handshake_forged, running_link, forged, overflow) scenario counts
    return (4000, 3000, 1200, 3000, 60) if ctx.thorough else (400, 300, 120, 300, 8)


def build_scripts(ctx):
    rng = ctx.rng
    n_hl, n_hf, n_rl, n_fg, n_of = _budget(ctx)
    fams = []
    fams.append(("handshake_link", [G.gen_handshake_link(rng, rng.choice([30, 60, 90])) for _ in range(n_hl)]))
    fams.append(("handshake_forged", [G.gen_handshake_forged(rng, rng.choice([25, 40, 60])) for _ in range(n_hf)]))
    fams.append(("running_link", [G.gen_running_link(rng, rng.choice([60, 120, 200])) for _ in range(n_rl)]))
    fams.append(("forged", [G.gen_forged(rng, G.codec_encode, rng.choice([30, 50, 80])) for _ in range(n_fg)]))
    fams.append(("overflow", [G.gen_running_link(rng, mode="overflow") for _ in range(n_of)]
                 + [G.multiple_disconnected_script(), G.event_after_disconnected_script(True),
                    G.event_after_disconnected_script(False)]))
    return fams


def summarize(lines, impl):
    kinds, outcomes, events = {}, {}, {}
    reached = {"Running": 0, "Disconnected": 0, "Shutdown": 0}
    cur_states = set()
    for op, r in zip(lines, impl):
        k = G.op_kind(op)
        kinds[k] = kinds.get(k, 0) + 1
        o = r.split(" ")[0] if r else "none"
        outcomes[o] = outcomes.get(o, 0) + 1
        if op == "reset":
            for s in cur_states:
                reached[s] += 1
            cur_states = set()
        if " | ev=" in r:
            ev = r.split(" | ev=")[1].split(" | ")[0]
            if ev != "-":
                for e in ev.split(";"):
                    n = e.split("/")[0]
                    events[n] = events.get(n, 0) + 1
            st = r.split(" st=")[1].split(" ")[0]
            if st in reached:
                cur_states.add(st)
    for s in cur_states:
        reached[s] += 1
    return kinds, outcomes, events, reached


def run_endpoint_correspondence(ctx, profile="debug"):
    """Runs all generator families on model and implementation; disagreements are recorded by
    ctx.correspond (=> VIOLATION ... no-failing-input-found in the caller's verdict)."""
    t0 = time.time()
    if not getattr(ctx, "bins", None) or profile not in ctx.bins:
        if not ctx.build_harness((profile,)):
            return None
    dist = ctx.cov["input_distribution"].setdefault("endpoint", {})
    total = 0
    for name, scripts in build_scripts(ctx):
        lines = [l for s in scripts for l in s]
        impl, model = ctx.correspond("endpoint", lines, profile, label="endpoint:" + name)
        kinds, outcomes, events, reached = summarize(lines, impl)
        dist[name] = {"scenarios": len(scripts), "ops": len(lines), "op_kinds": kinds, "impl_outcomes": outcomes,
                      "events_seen": events, "scenarios_reaching_state": reached}
        total += len(lines)
        for s in scripts[:1]:
            ctx.count(sample={"family": name, "head": s[:6]}, nontrivial_key=None)
        for op, r in zip(lines, impl):
            if r.startswith("ok |") and (" ev=-" not in r or " out=-" not in r):
                ctx.count(nontrivial_key=("endpoint", name, op, r[:60]))
    dist["total_ops"] = total
    dist["wall_s"] = round(time.time() - t0, 1)
    ctx.assumptions += ["endpoint level: Config::Input is a serde newtype over u32 (4 little-endian bytes), Address u32; "
                        "virtual clock and splitmix64 hook RNG of ggrs::verif (one clock/RNG per harness thread)"]
    return dist


def confirm_multiple_disconnected(ctx, profile="debug"):
    """The script of C12_multiple_disconnected_refuted on the real endpoint: returns the number of
    Disconnected events the final poll reports (2 = the defect of the code before 7ec8d35 is present,
    1 = repaired)."""
    if not getattr(ctx, "bins", None) or profile not in ctx.bins:
        if not ctx.build_harness((profile,)):
            return None
    script = G.multiple_disconnected_script()
    impl = ctx.run_impl("endpoint", script, profile)
    last = impl[-1]
    ev = last.split(" | ev=")[1].split(" | ")[0] if " | ev=" in last else ""
    return sum(1 for e in ev.split(";") if e == "disconnected")


def confirm_event_after_disconnected(ctx, profile="debug"):
    """The scripts of C12_event_after_disconnected_refuted on the real endpoint: returns the event batches
    of the polls that report Disconnected (`disconnected` alone = repaired, 25d3021;
    `disconnected;resumed` / `disconnected;interrupted/1500` = the defect is present)."""
    if not getattr(ctx, "bins", None) or profile not in ctx.bins:
        if not ctx.build_harness((profile,)):
            return None
    res = []
    for first in (True, False):
        impl = ctx.run_impl("endpoint", G.event_after_disconnected_script(first), profile)
        for r in impl:
            if " | ev=" in r and "disconnected" in r.split(" | ev=")[1].split(" | ")[0]:
                res.append(r.split(" | ev=")[1].split(" | ")[0])
    return res
