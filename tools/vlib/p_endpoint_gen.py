"""Script generators for the correspondence level `endpoint` (UdpProtocol endpoints).

Every generator returns a list of op lines (grammar: harness/src/endpoint.rs) that starts with `reset`,
so that scripts can be concatenated and run in one process.  All randomness comes from the `rng`
argument (ctx.rng).  Link-mode scripts never contain message contents: the drivers keep the per-link
outboxes; only forged `msg` ops carry contents, with magic numbers / nonces predicted here by the
same splitmix64 the hook RNG uses."""

M64 = (1 << 64) - 1
I32_MAX = 2147483647
I32_MIN = -2147483648
U128_MAX = (1 << 128) - 1


class SplitMix:
    """ggrs::verif::rng: each random::<u16>() / random::<u32>() consumes one step."""
    def __init__(self, seed):
        self.s = seed & M64

    def next_u32(self):
        self.s = (self.s + 0x9E3779B97F4A7C15) & M64
        z = self.s
        z = ((z ^ (z >> 30)) * 0xBF58476D1CE4E5B9) & M64
        z = ((z ^ (z >> 27)) * 0x94D049BB133111EB) & M64
        return ((z ^ (z >> 31)) >> 32) & 0xFFFFFFFF

    def magic(self):
        while True:
            v = self.next_u32() & 0xFFFF
            if v:
                return v


def hexs(bs):
    return "".join("%02x" % b for b in bs) or "-"


def status(rng, n, plain=False):
    if n == 0:
        return "-"
    if plain or rng.random() < 0.6:
        return ",".join("0:-1" for _ in range(n))
    return ",".join("%d:%d" % (rng.random() < 0.2, rng.choice([-1, 0, 1, 5, 40, 1000])) for _ in range(n))


def new_line(i, handles, players, local, window, timeout, notify, fps, desync):
    return "new %d handles=%s players=%d local=%d window=%d timeout=%d notify=%d fps=%d desync=%d" % (
        i, ",".join(map(str, handles)) or "-", players, local, window, timeout, notify, fps, desync)


def timer_steps(timeout, notify):
    base = [0, 0, 1, 16, 16, 17, 50, 100, 199, 200, 201, 202, 399, 400, 401]
    for x in (notify, timeout, timeout - notify, 5000):
        base += [x - 1, x, x + 1]
    return [b for b in base if b >= 0]


def pick_cfg(rng):
    timeout, notify = rng.choice([(2000, 500), (2000, 500), (2000, 500), (1000, 250), (600, 300), (500, 2000),
                                  (300, 300), (0, 0), (400, 0), (2500, 1)])
    return {"timeout": timeout, "notify": notify, "window": rng.choice([8, 8, 8, 0, 1, 2, 12, 64]),
            "fps": rng.choice([60, 60, 60, 30, 144, 1, 0, 1000]), "desync": rng.choice([0, 0, 1, 1, 10, 100])}


def pair_header(rng, cfg, seed, t0, swap_handles=False):
    """two 1-player endpoints 0 (local handle 0, remote 1) and 1 (local 1, remote 0), linked"""
    h0, h1 = ([0], [1]) if swap_handles else ([1], [0])
    return ["reset", "seed %d" % seed, "clock %d" % t0,
            new_line(0, h0, 2, 1, cfg["window"], cfg["timeout"], cfg["notify"], cfg["fps"], cfg["desync"]),
            new_line(1, h1, 2, 1, cfg["window"], cfg["timeout"], cfg["notify"], cfg["fps"], cfg["desync"]),
            "link 0 1", "link 1 0"]


def complete_handshake(lines, rounds=11):
    lines += ["sync 0", "sync 1"]
    for _ in range(rounds):
        lines += ["deliver 0 1 0", "deliver 1 0 0"]
    lines += ["poll 0 0:-1,0:-1", "poll 1 0:-1,0:-1"]


# ---------------------------------------------------------------- handshake, two linked endpoints
def gen_handshake_link(rng, steps=60):
    cfg = pick_cfg(rng)
    seed, t = rng.getrandbits(64), rng.choice([0, 1, 1000, 10**6, 10**12])
    L = pair_header(rng, cfg, seed, t)
    sm = SplitMix(seed)
    magics = [sm.magic(), sm.magic()]
    order = rng.choice([["sync 0", "sync 1"]] * 4 + [["sync 1", "sync 0"]] * 3 + [["sync 0"]] * 2 + [["sync 0", "sync 1", "sync 1"]])
    L += order
    late_sync = order == ["sync 0"]
    steps_ms = timer_steps(cfg["timeout"], cfg["notify"])
    for _ in range(steps):
        r = rng.random()
        a = rng.randrange(2)
        b = 1 - a
        if r < 0.40:
            L.append("deliver %d %d %d" % (a, b, rng.choice([0, 0, 0, 0, 0, 0, 1, 2, 3])))
        elif r < 0.47:
            L.append("dup %d %d %d" % (a, b, rng.choice([0, 0, 1, 2])))
        elif r < 0.52:
            L.append("drop %d %d %d" % (a, b, rng.choice([0, 0, 1])))
        elif r < 0.66:
            t += rng.choice(steps_ms)
            L.append("clock %d" % t)
            L.append("poll %d %s" % (a, status(rng, 2)))
        elif r < 0.72:
            L.append("poll %d %s" % (a, status(rng, 2)))
        elif r < 0.80:   # stray / foreign replies and requests
            magic = rng.choice([magics[b], magics[a], 0, rng.randrange(1, 65536)])
            kind = rng.choice(["srep", "srep", "sreq"])
            L.append("msg %d %d %s %d" % (a, magic, kind, rng.getrandbits(32)))
        elif r < 0.88:   # non-handshake packets during the handshake
            magic = rng.choice([magics[b], rng.randrange(0, 65536)])
            body = rng.choice(["ka", "ack 3", "qrep 1 5", "qrpl 7", "csum 99 4",
                               "input 0:-1,0:-1 0 0 -1 0401", "input - 1 0 -1 -"])
            L.append("msg %d %d %s" % (a, magic, body))
        elif r < 0.91:
            L.append("send %d %d:%d:%d %s" % (a, a, 0, rng.getrandbits(32), status(rng, 2)))
        elif r < 0.93 and late_sync:
            L.append("sync 1")
            late_sync = False
        elif r < 0.95:
            L.append(rng.choice(["stats %d", "avg %d", "adv %d 3"]) % a)
        elif r < 0.954:
            L.append("disc %d" % a)
        else:
            L.append("deliver %d %d 0" % (a, b))
    return L


# ---------------------------------------------------------------- handshake, one endpoint, forged replies
def gen_handshake_forged(rng, steps=40):
    """One endpoint; this generator mirrors the nonce draws to forge replies with outstanding, answered
    and unknown nonces under arbitrary magics."""
    cfg = pick_cfg(rng)
    seed, t = rng.getrandbits(64), rng.choice([0, 5, 1000, 10**9])
    sm = SplitMix(seed)
    L = ["reset", "seed %d" % seed, "clock %d" % t,
         new_line(0, [1], 2, 1, cfg["window"], cfg["timeout"], cfg["notify"], cfg["fps"], cfg["desync"])]
    sm.magic()
    L.append("sync 0")
    outstanding, answered = [sm.next_u32()], []
    remaining, last_req, state = 5, t, "sync"
    remote_magic = None
    steps_ms = timer_steps(cfg["timeout"], cfg["notify"])
    for _ in range(steps):
        r = rng.random()
        if r < 0.45 and state == "sync" and outstanding:
            n = rng.choice(outstanding)
            magic = rng.choice([777, 777, 777, rng.randrange(0, 65536)])
            L.append("msg 0 %d srep %d" % (magic, n))
            outstanding.remove(n)
            answered.append(n)
            remaining -= 1
            if remaining > 0:
                outstanding.append(sm.next_u32())
                last_req = t
            else:
                state, remote_magic = "run", magic
        elif r < 0.55 and answered:
            L.append("msg 0 %d srep %d" % (rng.choice([777, 1]), rng.choice(answered)))      # duplicate
        elif r < 0.65:
            n = rng.getrandbits(32)
            if n not in outstanding:
                L.append("msg 0 %d srep %d" % (rng.choice([777, 2]), n))                      # unknown nonce
        elif r < 0.85:
            t += rng.choice(steps_ms)
            L.append("clock %d" % t)
            L.append("poll 0 %s" % status(rng, 2))
            if state == "sync" and last_req + 200 < t:
                outstanding.append(sm.next_u32())
                last_req = t
        elif r < 0.92 and state == "run":
            magic = rng.choice([remote_magic, remote_magic, (remote_magic + 1) % 65536])
            L.append("msg 0 %d %s" % (magic, rng.choice(["ka", "sreq 5", "srep %d" % rng.choice(answered),
                                                         "qrep 3 %d" % t, "qrpl %d" % max(0, t - 30)])))
        elif r < 0.96:
            L.append("msg 0 %d sreq %d" % (rng.randrange(0, 65536), rng.getrandbits(32)))
        else:
            L.append("stats 0")
    return L


# ---------------------------------------------------------------- running phase, two linked endpoints
def gen_running_link(rng, steps=120, mode=None):
    cfg = pick_cfg(rng)
    mode = mode or rng.choice(["mixed", "mixed", "mixed", "ackloss", "overflow", "silence", "shutdown"])
    if mode == "overflow":
        cfg["timeout"], cfg["notify"] = rng.choice([(10**7, 10**7), (2000, 500), (10**7, 500)])
    seed, t = rng.getrandbits(64), rng.choice([0, 1000, 10**6])
    L = pair_header(rng, cfg, seed, t, swap_handles=False)
    complete_handshake(L)
    frame = [0, 0]
    steps_ms = timer_steps(cfg["timeout"], cfg["notify"])

    def send(a):
        L.append("send %d %d:%d:%d %s" % (a, a, frame[a], rng.choice([0, 1, 255, 256, rng.getrandbits(32)]), status(rng, 2)))
        frame[a] += 1

    def flush(a, b, n=3):
        for _ in range(n):
            L.append("deliver %d %d 0" % (a, b))

    if mode == "overflow":
        n = rng.choice([127, 128, 129, 130, 131, 140])
        for i in range(n):
            send(0)
            if rng.random() < 0.15:
                t += rng.choice([1, 16, 17])
                L.append("clock %d" % t)
            if rng.random() < 0.1:
                L.append("poll 0 %s" % status(rng, 2))
            if rng.random() < 0.05:
                L.append("drop 0 1 0")
        L.append("poll 0 %s" % status(rng, 2))
        send(0)
        L.append("poll 0 %s" % status(rng, 2))
        if rng.random() < 0.5:
            L += ["deliver 0 1 %d" % rng.choice([0, 5, 100]), "deliver 1 0 0", "poll 0 0:-1,0:-1"]
        send(0)
        L += ["disc 0", "send 0 0:%d:1 0:-1,0:-1" % frame[0], "poll 0 0:-1,0:-1"]
        return L
    for _ in range(steps):
        r = rng.random()
        a = rng.randrange(2)
        b = 1 - a
        if mode == "ackloss" and r < 0.25:
            L.append("drop %d %d 0" % (1, 0))
            continue
        if mode == "silence" and r < 0.3:
            t += rng.choice([cfg["notify"] - 1, cfg["notify"], cfg["notify"] + 1, cfg["timeout"] - 1,
                             cfg["timeout"], cfg["timeout"] + 1, 199, 200, 201])
            t = max(t, 0)
            L.append("clock %d" % t)
            L.append("poll %d %s" % (a, status(rng, 2)))
            if rng.random() < 0.5:
                L.append("deliver %d %d 0" % (b, a))
                L.append("poll %d %s" % (a, status(rng, 2)))
            continue
        if mode == "shutdown" and r < 0.08:
            L.append("disc %d" % a)
            t += rng.choice([4999, 5000, 5001, 1, 200])
            L += ["clock %d" % t, "poll %d 0:-1,0:-1" % a, "deliver %d %d 0" % (b, a), "send %d %d:%d:9 0:-1,0:-1" % (a, a, frame[a])]
            continue
        if r < 0.25:
            send(a)
        elif r < 0.50:
            L.append("deliver %d %d %d" % (a, b, rng.choice([0, 0, 0, 0, 1, 2, 5])))
        elif r < 0.56:
            L.append("dup %d %d %d" % (a, b, rng.choice([0, 0, 1, 3])))
        elif r < 0.63:
            L.append("drop %d %d %d" % (a, b, rng.choice([0, 0, 1])))
        elif r < 0.78:
            t += rng.choice(steps_ms)
            L.append("clock %d" % t)
            L.append("poll %d %s" % (a, status(rng, 2)))
        elif r < 0.84:
            L.append("poll %d %s" % (a, status(rng, 2)))
        elif r < 0.88:
            if cfg["desync"]:
                L.append("csum %d %d %d" % (a, rng.choice([0, 1, 10, 100, frame[a], I32_MAX, I32_MIN + 31 * cfg["desync"]]),
                                            rng.choice([0, 1, U128_MAX, rng.getrandbits(128)])))
        elif r < 0.92:
            L.append("adv %d %d" % (a, rng.choice([-1, 0, frame[a], frame[a] + 3, 1000])))
        elif r < 0.95:
            L.append(rng.choice(["stats %d", "avg %d"]) % a)
        elif r < 0.97:
            flush(a, b)
            flush(b, a)
        elif r < 0.98:
            L.append("send %d %d:%d:1,%d:%d:2 %s" % (a, 0, frame[a], 1, frame[a], status(rng, 2)))
            frame[a] += 1
        elif r < 0.985:
            L.append("send %d - %s" % (a, status(rng, 2)))
        elif r < 0.99:
            L.append("disc %d" % a)
    # misuse that may panic, last so that it does not cut the scenario short
    a = rng.randrange(2)
    L.append(rng.choice([
        "send %d 0:%d:1,1:%d:2 0:-1,0:-1" % (a, frame[a], frame[a] + 1),          # frames differ: assert in from_inputs
        "send %d %d:%d:1 0:-1,0:-1" % (a, a, frame[a] + 1),                         # frame gap: assert in send_pending_output
        "send %d %d:%d:1 0:-1,0:-1" % (a, a, max(0, frame[a] - 1)),                 # repeated frame
        "adv %d %d" % (a, rng.choice([I32_MAX, I32_MIN, 100000])),                  # i32 overflow in the estimate
        "csum %d 5 7" % a, "sync %d" % a, "stats %d" % a, "avg %d" % a]))
    L += ["deliver %d %d 0" % (a, 1 - a), "deliver %d %d 0" % (a, 1 - a), "poll %d 0:-1,0:-1" % (1 - a)]
    return L


# ---------------------------------------------------------------- forged packets at a running endpoint
def claimed_expansion(hexstr):
    """sum of the lengths the bitfield-rle tokens of a payload claim (0 if it is not even tokenisable)"""
    if hexstr in ("-", ""):
        return 0
    b = bytes.fromhex(hexstr)
    i, total = 0, 0
    while i < len(b):
        v, shift, k = 0, 0, 0
        while True:
            if i >= len(b) or k > 9:
                return total
            c = b[i]; i += 1; k += 1
            v |= (c & 127) << shift; shift += 7
            if c < 128:
                break
        if v & 1:
            total += v >> 2
        else:
            total += v >> 1; i += v >> 1
        if total > (1 << 40):
            return total
    return total

def gen_forged(rng, enc, steps=50):
    """Endpoint 0 (handles per config) reaches Running through a real peer; then forged packets of
    every malformed kind arrive under the peer's magic.  `enc(ref, inputs)` encodes with the real codec."""
    shape = rng.choice([("1", [1], 2), ("1", [1], 2), ("1,2", [1, 2], 3), ("-", [], 2), ("2,1", [1, 2], 3)])
    hs, handles, players = shape
    cfg = pick_cfg(rng)
    seed, t = rng.getrandbits(64), rng.choice([1000, 10**6])
    sm = SplitMix(seed)
    L = ["reset", "seed %d" % seed, "clock %d" % t,
         "new 0 handles=%s players=%d local=1 window=%d timeout=%d notify=%d fps=%d desync=%d" % (
             hs, players, cfg["window"], cfg["timeout"], cfg["notify"], cfg["fps"], cfg["desync"]),
         new_line(1, [0], players, len(handles), cfg["window"], cfg["timeout"], cfg["notify"], cfg["fps"], cfg["desync"]),
         "link 0 1", "link 1 0"]
    sm.magic()
    peer_magic = sm.magic()
    complete_handshake(L)
    nh = len(handles)
    st_ok = ",".join("0:-1" for _ in range(players))
    ref = [0] * (4 * nh)
    sent = 0
    nxt = 0          # next frame the endpoint expects (our belief)
    history = {}     # frame -> bytes we believe were accepted

    def packet(start, inputs, ack=-1, dr=0, st=None, magic=None, base=None):
        data = enc(ref if base is None else base, inputs)
        return "msg 0 %d input %s %d %d %d %s" % (peer_magic if magic is None else magic, st_ok if st is None else st,
                                                 dr, start, ack, data)

    def good_input():
        return [rng.choice([0, 0, 1, 255]) for _ in range(4 * nh)]

    if rng.random() < 0.12:   # the very first packet sits at the top of the frame range: `start_frame + i` overflows
        L.append(packet(I32_MAX, [good_input(), good_input()]))
        L.append("poll 0 %s" % st_ok)
    for _ in range(steps):
        r = rng.random()
        if r < 0.30:      # a well-formed packet with 1..3 new frames, possibly overlapping old ones
            back = rng.choice([0, 0, 0, 1, 2])
            start = max(0, nxt - back)
            cnt = back + rng.choice([1, 1, 2, 3]) if nxt - back >= 0 else rng.choice([1, 2])
            base = history.get(start - 1, [0] * (4 * nh)) if start > 0 else ([0] * (4 * nh) if not history else history.get(start - 1, ref))
            ins = []
            for i in range(cnt):
                f = start + i
                ins.append(history[f] if f in history else good_input())
            L.append(packet(start, ins, ack=rng.choice([-1, -1, 0, 3]), base=base))
            if nh > 0:
                for i, b in enumerate(ins):
                    history.setdefault(start + i, b)
                nxt = max(nxt, start + cnt)
                ref = history[nxt - 1]
        elif r < 0.36:    # wrong number of connection statuses, with and without disconnect request
            st = rng.choice(["-", "0:-1", ",".join("0:-1" for _ in range(players + 1))])
            L.append(packet(nxt, [good_input()], st=st, dr=rng.choice([0, 0, 1]), ack=rng.choice([-1, -1, 0, max(0, sent - 1), sent, 500])))
        elif r < 0.41:    # negative start frame
            # ... also with the disconnect flag set and with any number of statuses: the flag exempts a packet from the
            # status-count check only, never from this one
            L.append(packet(rng.choice([-1, -2, I32_MIN]), [good_input()], ack=rng.choice([-1, -1, 0, max(0, sent - 1), sent, 500]),
                            dr=rng.choice([0, 1]), st=rng.choice([None, None, "-", "0:-1"])))
        elif r < 0.46:    # start frame at the top of the i32 range (frame arithmetic overflows)
            L.append(packet(rng.choice([I32_MAX, I32_MAX - 1]), [good_input(), good_input(), good_input()][:rng.choice([1, 2, 3])],
                            base=[0] * (4 * nh)))
        elif r < 0.52:    # gap: no reference frame
            L.append(packet(nxt + rng.choice([1, 2, 50, 10000]), [good_input()]))
        elif r < 0.58:    # payload that the codec rejects, or random bytes
            raw = rng.choice(["80", "ffffffffffffffffffff01", "8180808004", "00", "0401", "-",
                              hexs([rng.randrange(128) for _ in range(rng.randrange(1, 9))]),
                              hexs([rng.randrange(128, 256), rng.randrange(1, 40)] + [rng.randrange(256) for _ in range(rng.randrange(0, 6))])])
            # payloads whose run tokens claim a huge (but admissible) expansion are the codec level's business
            # (p_C14: the unary-number model needs minutes for them); here they would only stall the model
            if 50000 < claimed_expansion(raw) <= 20000000:
                raw = "8180808004"
            L.append("msg 0 %d input %s 0 %d -1 %s" % (peer_magic, st_ok, nxt, raw))
        elif r < 0.68:    # wrong per-player byte shapes
            kind = rng.choice(["short", "odd", "long", "empty", "mixed"])
            if kind == "short":
                ins = [[1] * max(0, (4 * nh) - rng.choice([1, 2, nh if nh else 1]))]
            elif kind == "odd":
                ins = [[1] * (4 * nh + 1)]
            elif kind == "long":
                ins = [[rng.randrange(256) for _ in range(rng.choice([5, 8]) * max(nh, 1))]]
            elif kind == "empty":
                ins = [[]]
            else:
                ins = [good_input(), [7] * 3, good_input()]
            L.append(packet(nxt, ins))
            if kind == "long" and nh > 0:
                history[nxt] = ins[0]
                nxt += 1
                ref = ins[0]
        elif r < 0.72:    # disconnect request
            L.append(packet(nxt, [good_input()], dr=1, st=rng.choice([st_ok, "-"])))
        elif r < 0.76:    # acks of every size
            L.append("msg 0 %d ack %d" % (peer_magic, rng.choice([-1, 0, 5, I32_MAX, I32_MIN])))
        elif r < 0.81:    # quality reports / replies at the i16 and u128 edges
            L.append("msg 0 %d %s" % (peer_magic, rng.choice([
                "qrep 32767 0", "qrep -32768 %d" % U128_MAX, "qrep 5 %d" % t, "qrpl 0", "qrpl %d" % t,
                "qrpl %d" % (t + 5), "qrpl %d" % U128_MAX, "qrpl %d" % max(0, t - 2**33)])))
        elif r < 0.86:    # checksum reports
            if cfg["desync"]:
                L.append("msg 0 %d csum %d %d" % (peer_magic, rng.choice([0, U128_MAX, 12345]),
                                                 rng.choice([0, 1, 10, 500, I32_MAX, -1, rng.randrange(0, 4000)])))
        elif r < 0.89:    # wrong magic: dropped
            L.append(packet(nxt, [good_input()], magic=(peer_magic + rng.randrange(1, 65535)) % 65536))
        elif r < 0.95:
            L.append("send 0 0:%d:%d %s" % (sent, 5, st_ok))
            sent += 1
        elif r < 0.97:
            t += rng.choice([1, 16, 199, 200, 201, cfg["notify"] + 1, cfg["timeout"] + 1])
            L += ["clock %d" % t, "poll 0 %s" % st_ok]
        else:
            L.append(rng.choice(["adv 0 %d" % rng.choice([0, 5, 77]), "stats 0", "avg 0"]))
    # many checksum reports in a row: the history pruning
    if cfg["desync"] and rng.random() < 0.5:
        f0 = rng.randrange(0, 100)
        for i in range(rng.choice([33, 40, 70])):
            L.append("msg 0 %d csum %d %d" % (peer_magic, i, f0 + i * max(1, cfg["desync"])))
    # packets that panic a dev-profile build, last so that they do not cut the scenario short:
    # checksum report without desync detection (debug_assert), i32 overflow in the history arithmetic
    L.append(rng.choice(["msg 0 %d csum 1 %d" % (peer_magic, rng.choice([5, I32_MIN, I32_MIN + 31 * max(1, cfg["desync"]) - 1, I32_MAX])),
                         "adv 0 %d" % I32_MIN, packet(I32_MAX, [good_input(), good_input()]),
                         "send 0 0:%d:1 %s" % (sent + 1, st_ok), "send 0 0:%d:1 %s" % (max(0, sent - 1), st_ok)]))
    L.append("poll 0 %s" % st_ok)
    return L


# ---------------------------------------------------------------- the script of C12_multiple_disconnected_refuted
def multiple_disconnected_script(extra=2):
    """130 (+extra-2) send_input calls on a Running endpoint whose peer never acknowledges
    (the script of C12_multiple_disconnected_refuted; before 7ec8d35 the final poll returned
    `disconnected;disconnected`)."""
    L = pair_header(None, {"window": 8, "timeout": 2000, "notify": 500, "fps": 60, "desync": 0}, 1, 0)
    complete_handshake(L)
    for f in range(128 + extra):
        L.append("send 0 0:%d:0 0:-1,0:-1" % f)
    L.append("poll 0 0:-1,0:-1")
    return L


def event_after_disconnected_script(packet_first=True):
    """The script of C12_event_after_disconnected_refuted: an interrupted endpoint overflows in send_input
    and then accepts a packet (or is polled late) before the poll that reports Disconnected.
    Before 25d3021 the poll returned `disconnected;resumed` (or `disconnected;interrupted/..`)."""
    L = pair_header(None, {"window": 8, "timeout": 2000, "notify": 500, "fps": 60, "desync": 0}, 1, 0)
    complete_handshake(L)
    if packet_first:
        L += ["clock 501", "poll 0 0:-1,0:-1", "poll 1 0:-1,0:-1"]
    for f in range(129):
        L.append("send 0 0:%d:0 0:-1,0:-1" % f)
    if packet_first:
        L += ["deliver 1 0 0", "poll 0 0:-1,0:-1", "disc 0"]
    else:
        L += ["clock 501", "poll 0 0:-1,0:-1", "disc 0"]
    return L


def op_kind(line):
    t = line.split()
    if t[0] == "msg":
        return "msg_" + t[3]
    return t[0]


# ---------------------------------------------------------------- the input codec (port of coq/Rle.v, Codec.v)
def _venc(n):
    out = []
    while n > 127:
        out.append((n & 127) | 128)
        n >>= 7
    out.append(n)
    return out


def rle_encode(bs):
    ln, contig, prev, nonc, out = 0, False, 0, [], []
    for i, b in enumerate(bs):
        if contig and b == prev:
            ln += 1
            continue
        if contig:
            out += _venc(ln * 4 + 1 + (2 if prev == 255 else 0))
        if b == 0 or b == 255:
            if (not contig) and i != 0:
                out += _venc(2 * len(nonc)) + nonc
                nonc = []
            ln, contig, prev = 1, True, b
        else:
            contig = False
            nonc = nonc + [b]
    if contig:
        out += _venc(ln * 4 + 1 + (2 if prev == 255 else 0))
    else:
        out += _venc(2 * len(nonc)) + nonc
    return out


def codec_encode(ref, inputs):
    buf, base = [], list(ref)
    for inp in inputs:
        l = len(inp) & 0xFFFF
        buf += [l & 255, l >> 8]
        buf += [(base[i] ^ x) if i < len(base) else x for i, x in enumerate(inp)]
        base = list(inp)
    return hexs(rle_encode(buf))


# ---------------------------------------------------------------- scripts of the C05 / C08 / C18 witnesses (EndpointSafety.v, EndpointLink.v)
_DEFAULT_CFG = {"window": 8, "timeout": 2000, "notify": 500, "fps": 60, "desync": 0}


def _running_pair(cfg=None, seed=1):
    """two linked endpoints after a complete handshake; returns (lines, magic of 0, magic of 1)"""
    c = dict(_DEFAULT_CFG)
    c.update(cfg or {})
    L = pair_header(None, c, seed, 0)
    sm = SplitMix(seed)
    m0, m1 = sm.magic(), sm.magic()
    complete_handshake(L)
    return L, m0, m1


def frame_overflow_script():
    """C08_frame_overflow_panics_refuted: a packet under the peer's magic whose first (valid) frame sits at
    i32::MAX; the number of the second frame overflows: `panic` in the dev profile, ok (lr=2147483647) in release."""
    L, _, m1 = _running_pair()
    L.append("msg 0 %d input 0:-1,0:-1 0 %d -1 %s" % (m1, I32_MAX, codec_encode([0] * 4, [[1, 0, 0, 0], [7, 7, 7]])))
    L.append("poll 0 0:-1,0:-1")
    return L


def checksums_unbounded_script(n=40):
    """C18_pending_checksums_unbounded_refuted: n checksum reports with strictly decreasing frames (forged by the
    authorized peer) are all kept: the last-but-one line shows pc=n."""
    L, _, m1 = _running_pair({"desync": 1})
    for k in range(n):
        L.append("msg 0 %d csum 7 %d" % (m1, 1000 - k))
    L.append("poll 0 0:-1,0:-1")
    return L


def recv_inputs_unbounded_script(n=20, window=0):
    """C18_recv_inputs_unbounded_refuted: n packets [good, good, 3 bytes] (forged by the authorized peer), each
    starting at last_recv_frame + 1: the wrong-size exit keeps the good frames and never prunes: ri=2n+1."""
    L, _, m1 = _running_pair({"window": window})
    ref = [0, 0, 0, 0]
    for k in range(n):
        good = [1, 0, 0, 0]
        L.append("msg 0 %d input 0:-1,0:-1 0 %d -1 %s" % (m1, 2 * k, codec_encode(ref, [good, good, [7, 7, 7]])))
        ref = good
    L.append("poll 0 0:-1,0:-1")
    return L


def lost_ack_script(window=0, first_frame=0, retries=2):
    """The history of C05_lost_ack_wedges_refuted / C05_lost_ack_repaired on real endpoints: endpoint 0 sends
    frame f, endpoint 1 handles it, its InputAck is dropped, 0 sends frame f+1, 1 handles that packet, then 0's retry
    timer fires `retries` times.  Repaired code: lr of endpoint 1 reaches f+1 (with first_frame > 0 only through the
    re-acknowledgement: `deliver 1 0` of the InputAck, then the next packet).  Before b2421d6 lr stayed f."""
    L, _, _ = _running_pair({"window": window})
    f = first_frame
    L += ["clock 10", "send 0 0:%d:5 0:-1,0:-1" % f, "deliver 0 1 0", "drop 1 0 0",
          "clock 20", "send 0 0:%d:6 0:-1,0:-1" % (f + 1), "deliver 0 1 0"]
    t = 20
    for _ in range(retries):
        t += 300
        L += ["clock %d" % t, "poll 0 0:-1,0:-1",          # retry timer: retransmission (+ quality report)
              "deliver 0 1 0",                              # the retransmitted Input packet reaches 1
              "deliver 1 0 0"]                              # 1's answer (InputAck) reaches 0
    L += ["clock %d" % (t + 300), "poll 0 0:-1,0:-1", "deliver 0 1 0", "poll 1 0:-1,0:-1"]
    return L
