"""Shared machinery of tools/check: context, proof side, harness build, verdicts, evidence."""
import hashlib, json, os, random, re, resource, subprocess, sys, time

def _big_stack():
    try:
        resource.setrlimit(resource.RLIMIT_STACK, (resource.RLIM_INFINITY, resource.RLIM_INFINITY))
    except Exception:
        pass

ROOT = os.path.normpath(os.path.join(os.path.dirname(os.path.abspath(__file__)), "..", ".."))
REPO = os.environ.get("VERIF_REPO", "/repo")
CACHE = os.path.join(ROOT, ".cache")
COQ = os.path.join(ROOT, "coq")
DRIVER = os.path.join(CACHE, "extract", "driver")
TARGET = os.path.join(CACHE, "target")
REPLAYS = os.path.join(ROOT, "replays")

# axioms a property theorem may depend on (each is a standard-library axiom; see DESIGN.md section 7)
AXIOM_ALLOW = {
    "functional_extensionality_dep", "FunctionalExtensionality.functional_extensionality_dep",
    "Eqdep.Eq_rect_eq.eq_rect_eq", "Eq_rect_eq.eq_rect_eq", "JMeq_eq", "JMeq.JMeq_eq",
    "Classical_Prop.classic", "ClassicalDedekindReals.sig_forall_dec", "ClassicalDedekindReals.sig_not_dec",
}
FORBIDDEN = re.compile(
    r"\b(Admitted|admit|Axiom|Axioms|Parameter|Parameters|Conjecture|Conjectures|Abort All)\b"
    r"|Unset\s+Guard|Unset\s+Positivity|Unset\s+Universe|bypass_check|type-in-type|impredicative-set|Admit\s+Obligations|native_compute")

def sh(cmd, timeout=None, cwd=None, env=None, inp=None):
    e = dict(os.environ)
    e.update({"CARGO_NET_OFFLINE": "true"})
    if env:
        e.update(env)
    try:
        p = subprocess.run(cmd, shell=isinstance(cmd, str), cwd=cwd, env=e, input=inp,
                           stdout=subprocess.PIPE, stderr=subprocess.STDOUT, timeout=timeout)
        return p.returncode, p.stdout.decode("utf-8", "replace")
    except subprocess.TimeoutExpired as ex:
        out = ex.stdout.decode("utf-8", "replace") if ex.stdout else ""
        return 124, out + "\n[timeout after %ss]" % timeout

def repo_fingerprint():
    rc, head = sh("git -C %s rev-parse --short HEAD" % REPO)
    rc, diff = sh("git -C %s diff HEAD -- src Cargo.toml" % REPO)
    return head.strip() + ("+dirty-" + hashlib.sha1(diff.encode()).hexdigest()[:8] if diff.strip() else "")

class Ctx:
    def __init__(self, pid, tier, seed):
        self.pid, self.tier, self.seed = pid, tier, seed
        self.t0 = time.time()
        self.rng = random.Random((seed * 1000003) ^ int(hashlib.sha1(pid.encode()).hexdigest()[:8], 16))
        self.proof_failures = []     # names of theorems / files / constants that no longer check
        self.corr_failures = []      # correspondence disagreements (dicts)
        self.hits = []               # monitor hits: concrete failing inputs (dicts with 'class')
        self.known_printed = []
        self.cov = {"obligations": 0, "discharged": 0, "checker_cmd": "", "trusted_base": [],
                    "evaluations": 0, "distinct_nontrivial": 0, "rule": "", "samples": [],
                    "traces_validated_against_impl": 0, "correspondence": {}, "monitors": {},
                    "input_distribution": {}}
        self.assumptions = []
        self.notes = []
        self.distinct = set()
        os.makedirs(CACHE, exist_ok=True)
        self.known = json.load(open(os.path.join(ROOT, "known_findings.json")))["findings"]

    @property
    def thorough(self):
        return self.tier == "thorough"

    def log(self, *a):
        print("[%s %6.1fs]" % (self.pid, time.time() - self.t0), *a, flush=True)

    # ---------------- proof side ----------------
    def proof_side(self, extra_targets=()):
        """make props/<id>.vo (full .vo build of its dependency cone) + driver, Print Assumptions
        of every theorem in the props file against the allow-list, forbidden-token grep."""
        rc, out = sh("python3 %s/tools/consts.py" % ROOT, timeout=60)
        missing = [l.split()[1] for l in out.splitlines() if l.startswith("MISSING")]
        self.consts = dict((l.split()[1], int(l.split()[2])) for l in out.splitlines() if l.startswith("CONST"))
        needed = set(getattr(self, "needed_consts", []) or [])
        for m in missing:
            if not needed or m in needed:
                self.proof_failures.append("constant %s not found in %s/src (model tie broken)" % (m, REPO))
        props_v = os.path.join(COQ, "props", self.pid + ".v")
        targets = ["props/%s.vo" % self.pid] + list(extra_targets)
        t = time.time()
        rc, out = sh([os.path.join(ROOT, "tools", "build_model.sh")] + targets, timeout=2400)
        self.log("coq make %s rc=%d (%.1fs)" % (" ".join(targets), rc, time.time() - t))
        theorems = re.findall(r"^\s*Theorem\s+(\w+)", open(props_v).read(), re.M)
        cone = self.cone_files(props_v)
        nlem = 0
        for f in cone:
            nlem += len(re.findall(r"^\s*(?:Theorem|Lemma|Corollary|Example|Fact|Proposition)\s+\w+", open(f).read(), re.M))
        self.cov["obligations"] = nlem
        self.cov["property_theorems"] = theorems
        self.cov["checker_cmd"] = "coq_makefile -f _CoqProject -o Makefile && make props/%s.vo  (coqc 8.16.1, full .vo build) ; coqc Print Assumptions per theorem" % self.pid
        if rc != 0:
            m = re.findall(r'File "\./([^"]+)", line (\d+)', out)
            where = ("%s line %s" % m[-1]) if m else "unknown file"
            err = out.strip().splitlines()[-6:]
            self.proof_failures.append("coq build failed at %s: %s" % (where, " | ".join(err)[-600:]))
            self.cov["discharged"] = 0
            return False
        self.cov["discharged"] = nlem
        # Print Assumptions, always fresh
        pa = os.path.join(CACHE, "pa_%s.v" % self.pid)
        with open(pa, "w") as fh:
            fh.write("From GGRS Require Import props.%s.\n" % self.pid)
            for th in theorems:
                fh.write('Print Assumptions %s.\n' % th)
        rc, out = sh("coqc -Q %s GGRS %s" % (COQ, pa), timeout=600, cwd=CACHE)
        if rc != 0:
            self.proof_failures.append("Print Assumptions run failed: " + out[-400:])
            return False
        blocks = re.split(r"(?=Closed under the global context|Axioms:)", out)
        axioms_seen = []
        for b in blocks:
            if b.startswith("Axioms:"):
                # an axiom entry starts in column 0 with its name; the ':' may wrap onto the next line
                for line in b.splitlines()[1:]:
                    mm = re.match(r"^([A-Za-z_][\w.']*)\s*(:|$)", line)
                    if mm:
                        axioms_seen.append(mm.group(1))
        bad = [a for a in axioms_seen if a not in AXIOM_ALLOW and a.split(".")[-1] not in {x.split(".")[-1] for x in AXIOM_ALLOW}]
        self.cov["axioms"] = sorted(set(axioms_seen)) or ["<none: closed under the global context>"]
        if bad:
            self.proof_failures.append("theorem depends on axioms outside the allow-list: " + ", ".join(sorted(set(bad))))
        # forbidden tokens anywhere in the development
        for dirpath, _, files in os.walk(COQ):
            for f in files:
                if f.endswith(".v"):
                    txt = open(os.path.join(dirpath, f)).read()
                    txt = re.sub(r"\(\*.*?\*\)", "", txt, flags=re.S)
                    mm = FORBIDDEN.search(txt)
                    if mm:
                        self.proof_failures.append("forbidden token %r in %s" % (mm.group(0), f))
        # thorough tier: independent re-check of the property file and everything it depends on
        if getattr(self, "thorough", False):
            t = time.time()
            rc, out = sh("coqchk -o -silent -Q %s GGRS GGRS.props.%s" % (COQ, self.pid), timeout=3000, cwd=COQ)
            self.log("coqchk props.%s rc=%d (%.1fs)" % (self.pid, rc, time.time() - t))
            m = re.search(r"\* Axioms:(.*?)\n\s*\n", out, re.S)
            chk_axioms = [a.strip() for a in (m.group(1).splitlines() if m else []) if a.strip() and a.strip() != "<none>"]
            self.cov["coqchk"] = {"rc": rc, "axioms": chk_axioms or ["<none>"]}
            badchk = [a for a in chk_axioms if a.split(".")[-1] not in {x.split(".")[-1] for x in AXIOM_ALLOW}]
            if rc != 0:
                self.proof_failures.append("coqchk rejected props.%s: %s" % (self.pid, out[-300:]))
            elif badchk:
                self.proof_failures.append("coqchk lists axioms outside the allow-list: " + ", ".join(badchk))
        self.cov["trusted_base"] = [
            "Coq 8.16.1 kernel (coqc, vm_compute; no native_compute)" + ("; coqchk re-check of the property file's cone" if getattr(self, "thorough", False) else ""),
            "axioms per Print Assumptions: " + ", ".join(self.cov["axioms"]),
            "tools/consts.py (constants regenerated from /repo/src into coq/Consts.v)",
            "extraction (ExtrOcamlBasic only) + ocaml/driver.ml; Rust harness + verif-hooks wrappers (correspondence = differential testing)",
        ]
        return not self.proof_failures

    def cone_files(self, vfile):
        """.v files of this development that vfile transitively requires (via coqdep)."""
        rc, out = sh("coqdep -Q . GGRS -sort %s" % os.path.relpath(vfile, COQ), cwd=COQ, timeout=120)
        files = []
        for tok in out.split():
            tok = tok.strip()
            if tok.endswith(".v"):
                p = os.path.normpath(os.path.join(COQ, tok))
                if p.startswith(COQ) and os.path.exists(p):
                    files.append(p)
        if not files:
            files = [vfile]
        return files

    # ---------------- implementation side ----------------
    def build_harness(self, profiles=("debug",)):
        self.bins = {}
        lock = os.path.join(ROOT, "harness", "Cargo.lock")
        for prof in profiles:
            t = time.time()
            cmd = "cargo build --offline" + (" --release" if prof == "release" else "")
            rc, out = sh(cmd, cwd=os.path.join(ROOT, "harness"), timeout=1800,
                         env={"CARGO_TARGET_DIR": TARGET})
            self.log("cargo build (%s) rc=%d (%.1fs)" % (prof, rc, time.time() - t))
            if rc != 0:
                self.notes.append("harness build failed (%s): %s" % (prof, out[-800:]))
                self.corr_failures.append({"what": "harness does not build against /repo (%s)" % prof, "detail": out[-800:]})
                return False
            self.bins[prof] = os.path.join(TARGET, prof, "vharness")
        return True

    def run_impl(self, level, script, profile="debug", args=(), timeout=600):
        """Feeds the script (list of lines) to the harness; restarts after a crash so that every op
        gets a result line ('crash' for the op the process died on)."""
        results, start = [], 0
        lines = list(script)
        while start < len(lines):
            chunk = "\n".join(lines[start:]) + "\n"
            try:
                p = subprocess.run([self.bins[profile], level] + list(args), input=chunk.encode(),
                                   stdout=subprocess.PIPE, stderr=subprocess.DEVNULL, timeout=timeout)
                out = p.stdout.decode("utf-8", "replace").splitlines()
                rc = p.returncode
            except subprocess.TimeoutExpired as ex:
                out = (ex.stdout or b"").decode("utf-8", "replace").splitlines()
                rc = 124
            results.extend(out)
            start += len(out)
            if start < len(lines) and (rc != 0 or len(out) == 0):
                results.append("crash rc=%d" % rc)
                start += 1
            elif start < len(lines) and rc == 0:
                # harness printed fewer lines than ops without failing: protocol error
                results.append("noresult")
                start += 1
        return results

    STATELESS_LEVELS = ("codec",)      # every op is evaluated on its own: a big script may be cut anywhere

    def run_model(self, level, script, profile="debug", timeout=600, _shard=True):
        if _shard and level in self.STATELESS_LEVELS and len(script) > 20000:
            from concurrent.futures import ThreadPoolExecutor
            n = 14
            # round robin, so that the expensive cases (long expansions) are spread over the shards
            parts = [script[k::n] for k in range(n)]
            with ThreadPoolExecutor(max_workers=n) as ex:
                outs = list(ex.map(lambda part: self.run_model(level, part, profile, max(timeout, 2400), _shard=False), parts))
            merged = [None] * len(script)
            for k, o in enumerate(outs):
                merged[k::n] = o
            return merged
        chunk = "\n".join(script) + "\n"
        if os.environ.get("VERIF_DUMP_MODEL_SCRIPTS"):
            open(os.path.join(ROOT, ".cache", "model_script_%s_%d.txt" % (level, len(script))), "w").write(chunk)
        try:
            p = subprocess.run([DRIVER, level, profile], input=chunk.encode(), stdout=subprocess.PIPE,
                               stderr=subprocess.PIPE, timeout=timeout, preexec_fn=_big_stack)
        except subprocess.TimeoutExpired:
            # the correspondence of this batch is then unchecked: reported as such, not as a crash of the check
            self.corr_failures.append({"what": "model driver timed out after %d s on level %s (%d ops): correspondence of this batch not checked" % (timeout, level, len(script))})
            return ["modeltimeout"] * len(script)
        out = p.stdout.decode("utf-8", "replace").splitlines()
        if p.returncode != 0 or len(out) != len(script):
            self.corr_failures.append({"what": "model driver failed on level %s (rc=%d, %d/%d lines): %s" %
                                       (level, p.returncode, len(out), len(script), p.stderr.decode()[-300:])})
            out += ["modelcrash"] * (len(script) - len(out))
        return out

    def correspond(self, level, script, profile="debug", canon=None, impl_args=(), label=None, model_filter=None):
        """Runs model and implementation on the same script; records disagreements; returns
        (impl_results, model_results).  model_filter(op, impl_line) -> False excludes an op from
        the model run (used for ops whose evaluation in the unary-number model is too expensive)."""
        impl = self.run_impl(level, script, profile, impl_args)
        key = "%s/%s" % (label or level, profile)
        st = self.cov["correspondence"].setdefault(key, {"ops": 0, "disagreements": 0, "skipped_for_model": 0})
        if model_filter:
            keep = [i for i, (op, a) in enumerate(zip(script, impl)) if model_filter(op, a)]
            st["skipped_for_model"] += len(script) - len(keep)
            sub = self.run_model(level, [script[i] for i in keep], profile)
            model = [None] * len(script)
            for i, m in zip(keep, sub):
                model[i] = m
        else:
            model = self.run_model(level, script, profile)
        for i, (op, a, b) in enumerate(zip(script, impl, model)):
            if b is None:
                continue
            ca = canon(a) if canon else a
            st["ops"] += 1
            if ca != b:
                st["disagreements"] += 1
                if len(self.corr_failures) < 50:
                    rec = {"what": "correspondence %s" % key, "op": op, "impl": a[:200], "model": b[:200], "index": i}
                    if st["disagreements"] == 1:
                        # the script that leads to the first disagreement: from the last `new ...` op on (replayable)
                        j = i
                        while j > 0 and not script[j].startswith("new") and i - j < 600:
                            j -= 1
                        rec["script"] = script[j:i + 1]
                    self.corr_failures.append(rec)
        self.cov["traces_validated_against_impl"] += len(script)
        return impl, model

    # ---------------- verdict ----------------
    def hit(self, cls, what, replay):
        """A monitor found a concrete failing input.  cls = failure class (matched against the
        known-findings file), replay = JSON-serialisable data that reproduces it."""
        self.hits.append({"class": cls, "what": what, "replay": replay})

    def count(self, sample=None, nontrivial_key=None):
        self.cov["evaluations"] += 1
        if nontrivial_key is not None:
            self.distinct.add(nontrivial_key)
        if sample is not None and len(self.cov["samples"]) < 6 and len(json.dumps(sample)) < 400:
            self.cov["samples"].append(sample)

    def finish(self):
        wall = time.time() - self.t0
        self.cov["distinct_nontrivial"] = len(self.distinct)
        unknown_hits, known_hits = [], []
        for h in self.hits:
            k = [f for f in self.known if f.get("status") == "open" and f["property"] == self.pid and f["class"] == h["class"]]
            (known_hits if k else unknown_hits).append(h)
        printed = set()
        for h in known_hits:
            if h["class"] not in printed:
                printed.add(h["class"])
                print("KNOWN-FINDING: property=%s %s" % (self.pid, h["what"]), flush=True)
        violations = 0
        if unknown_hits or self.proof_failures or self.corr_failures:
            violations = max(1, len(unknown_hits))
            os.makedirs(REPLAYS, exist_ok=True)
            body = {"property": self.pid, "tier": self.tier, "seed": self.seed, "repo": repo_fingerprint(),
                    "failing_inputs": unknown_hits[:20],
                    "proof_obligations_no_longer_checked": self.proof_failures,
                    "correspondence_disagreements": self.corr_failures[:20]}
            digest = hashlib.sha1(json.dumps(body, sort_keys=True, default=str).encode()).hexdigest()[:10]
            path = os.path.join(REPLAYS, "%s-%s.json" % (self.pid, digest))
            with open(path, "w") as fh:
                json.dump(body, fh, indent=1, default=str)
            if unknown_hits:
                print("VIOLATION property=%s replay=%s" % (self.pid, path), flush=True)
                self.log("failing input: " + unknown_hits[0]["what"])
            else:
                for pf in self.proof_failures[:5]:
                    self.log("no longer checks: " + pf)
                for cf in self.corr_failures[:5]:
                    self.log("disagreement: " + json.dumps(cf)[:400])
                print("VIOLATION property=%s replay=%s no-failing-input-found" % (self.pid, path), flush=True)
        level = "proof" if self.cov.get("property_theorems") else "exploration"
        ev = {"property_id": self.pid, "tier": self.tier, "seed": self.seed, "level": level,
              "coverage": self.cov, "assumptions": self.assumptions, "wall_s": round(wall, 2),
              "violations": violations, "repo": repo_fingerprint(), "notes": self.notes,
              "known_findings_seen": sorted(printed)}
        # shape of the evidence schema, enforced here so that a check can never write a file that does not validate
        cov = self.cov
        if not isinstance(cov.get("exhaustive", False), bool):
            cov["exhaustive_note"] = str(cov["exhaustive"]); cov["exhaustive"] = False
        for k in ("evaluations", "distinct_nontrivial", "states", "transitions", "traces_validated_against_impl", "obligations", "discharged"):
            if k in cov and (not isinstance(cov[k], int) or isinstance(cov[k], bool) or cov[k] < 0):
                cov[k] = max(0, int(cov[k]))
        if "samples" in cov and not isinstance(cov["samples"], list):
            cov["samples"] = [cov["samples"]]
        if "rule" in cov and not isinstance(cov["rule"], str):
            cov["rule"] = str(cov["rule"])
        os.makedirs(os.path.join(ROOT, "evidence"), exist_ok=True)
        with open(os.path.join(ROOT, "evidence", self.pid + ".json"), "w") as fh:
            json.dump(ev, fh, indent=1, default=str)
        self.log("done: violations=%d wall=%.1fs" % (violations, wall))
        return 1 if violations else 0
