"""Level `session`: the P2P session core model (coq/P2P.v, Sync.v, Queue.v) against one real
P2PSession driven through puppet peers that speak the wire protocol."""

def gen_session(rng, steps=None, faults=True):
    players = rng.choice([2, 2, 3, 4])
    n_eps = rng.randrange(1, players)            # at least one local player
    owner = []
    for h in range(players):
        owner.append(None)
    remote_handles = rng.sample(range(players), rng.randrange(1, players))
    eps_of = {}
    for h in remote_handles:
        eps_of[h] = rng.randrange(n_eps)
    used = sorted(set(eps_of.values()))
    remap = {e: i for i, e in enumerate(used)}
    kinds = ["L" if h not in eps_of else "R%d" % remap[eps_of[h]] for h in range(players)]
    n_eps = len(used)
    ep_handles = {e: [h for h in range(players) if kinds[h] == "R%d" % e] for e in range(n_eps)}
    window = rng.choice([0, 1, 2, 3, 4, 8])
    sparse = rng.randrange(2) if window > 0 else 0
    nspec = rng.choice([0, 0, 1, 2])
    lines = ["new players=%d window=%d sparse=%d pred=%s delay=%d kinds=%s spectators=%d" %
             (players, window, sparse, rng.choice(["repeat", "default"]), rng.choice([0, 0, 1, 2, 3]), ",".join(kinds), nspec), "sync"]
    locals_ = [h for h in range(players) if kinds[h] == "L"]
    rf = {e: -1 for e in range(n_eps)}
    val = {h: rng.randrange(4) for h in range(players)}
    dead_eps = set()
    cur_est = 0
    lag = {e: rng.choice([0, 0, 1, 2, 4, 7]) for e in range(n_eps)}
    for _ in range(steps or rng.randrange(20, 220)):
        r = rng.random()
        if r < 0.62:
            # one tick: remote inputs trickle in with their lag, then local inputs, then advance
            for e in range(n_eps):
                if e in dead_eps and rng.random() < 0.8:
                    continue
                burst = rng.choice([0, 1, 1, 1, 2, 3])
                for _ in range(burst):
                    if rf[e] + 1 <= cur_est - lag[e] + rng.choice([0, 0, 1]) and rf[e] < cur_est + 10:
                        rf[e] += 1
                        for h in ep_handles[e]:
                            if rng.random() < 0.3:
                                val[h] = rng.randrange(4)
                        lines.append("rin %d %d %s" % (e, rf[e], " ".join(str(val[h]) for h in ep_handles[e])))
            for h in locals_:
                if rng.random() < 0.3:
                    val[h] = rng.randrange(4)
                if rng.random() < 0.97:
                    lines.append("local %d %d" % (h, val[h]))
            lines.append("advance")
            cur_est += 1
        elif r < 0.70:
            lines.append("poll")
        elif r < 0.76:
            e = rng.randrange(n_eps)
            if rf[e] < cur_est + 10:
                rf[e] += 1
                lines.append("rin %d %d %s" % (e, rf[e], " ".join(str(val[h]) for h in ep_handles[e])))
        elif r < 0.82 and locals_:
            lines.append("delay %d %d" % (rng.choice(locals_), rng.randrange(0, 7)))
        elif r < 0.86 and faults:
            e = rng.randrange(n_eps)
            st = []
            for h in range(players):
                if rng.random() < 0.25 and h not in ep_handles[e] and h not in locals_:
                    st.append("1:%d" % max(-1, cur_est - rng.randrange(0, 6)))
                else:
                    st.append("0:%d" % max(-1, cur_est - rng.randrange(0, 4)))
            lines.append("gossip %d %s" % (e, ",".join(st)))
            lines.append("poll")
        elif r < 0.88 and faults:
            e = rng.randrange(n_eps + nspec)
            lines.append("epdisc %d" % e)
            if e < n_eps:
                dead_eps.add(e)
            # sometimes a second endpoint drops in the very same poll (both Disconnected events are handled
            # before the next rollback: the resimulation must start at the earlier of the two frames)
            live = [x for x in range(n_eps) if x not in dead_eps]
            if live and rng.random() < 0.5:
                e2 = rng.choice(live)
                lines.append("epdisc %d" % e2); dead_eps.add(e2)
            lines.append("poll")
        elif r < 0.90 and faults:
            h = rng.randrange(players + nspec)
            lines.append("disc %d" % h)
            if h < players and kinds[h] != "L":
                dead_eps.add(int(kinds[h][1:]))
        elif r < 0.93:
            lines.append(rng.choice(["local %d 1" % rng.randrange(players + 2), "disc %d" % rng.choice(locals_ + [99]),
                                     "delay %d 2" % rng.randrange(players + 2)]))
        else:
            lines.append("advance")      # an advance without (all) local inputs: InvalidRequest
    return lines

def run_session_correspondence(ctx, n=None, faults=True):
    n = n or (1200 if ctx.thorough else 150)
    script = []
    # corpus first: minimised scripts of earlier findings (corpus/*.session)
    import glob, os
    for f in sorted(glob.glob(os.path.join(os.path.dirname(__file__), "..", "..", "corpus", "*.session"))):
        script += [l.strip() for l in open(f) if l.strip() and not l.startswith("#")]
    for _ in range(n):
        script += gen_session(ctx.rng, faults=faults)
    canon = lambda a: "panic" if a.startswith("panic") else a
    impl, model = ctx.correspond("session", script, "debug", canon=canon, label="session")
    kinds = {}
    for op, r in zip(script, impl):
        k = op.split()[0] + ":" + r.split()[0]
        kinds[k] = kinds.get(k, 0) + 1
    ctx.cov["input_distribution"]["session_ops"] = kinds
    return script, impl
