"""C15 (time-sync part) — frames_ahead() settles at +k / -k for a steady lead k, the two peers' values
sum to within one frame of zero; the remote-frame estimate and the quality-report clamp.

Proof side: coq/TimeSync.v (Flocq binary32, bit exact), TimeSyncProofs.v, props/C15.v.
Correspondence: level `timesync` (TimeSyncW wrapper; a real endpoint driven with real messages and the
virtual clock for update_local_frame_advantage / send_quality_report / on_quality_reply).
Monitors (implementation only, property text): steady windows => average within 1 of k, mirrored
windows => within 1 of -k and the sum within 1 of 0 (EVERY pair of window sums of the steady bands for
every k in -7..=7 is driven through the real code); the estimate lands within one frame of -k for
latencies 0..=100 ms at 30/60/120 fps; nothing in that range panics."""
import json, os, struct
from . import core

W_FALLBACK = 30
LEADS = list(range(-7, 8))
FPS = (30, 60, 120)
I32_MAX = 2147483647

# ---------------------------------------------------------------- helpers
def f32(x):
    return struct.unpack("f", struct.pack("f", x))[0]

def f32_avg(sl, sr, w):
    """Reference binary32 evaluation (double arithmetic on binary32 operands rounds correctly once);
    used ONLY to pick boundary inputs, never to judge the implementation."""
    la = f32(f32(sl) / f32(w)); ra = f32(f32(sr) / f32(w))
    return int(f32(f32(ra - la) / 2.0))

def exact_avg(sl, sr, w):
    d = sr - sl
    q = abs(d) // (2 * w)
    return q if d >= 0 else -q

def idx(frame, w):
    return (frame % (1 << 64)) % w

class Win:
    """Python mirror of the two windows (only to know which hypotheses of the property hold and to
    emit compact replays); the expected results are NOT computed from it."""
    def __init__(self, w):
        self.w = w; self.l = [0] * w; self.r = [0] * w
    def adv(self, f, l, r):
        self.l[idx(f, self.w)] = l; self.r[idx(f, self.w)] = r
        return "adv %d %d %d" % (f, l, r)
    def steady(self, k):
        return all(-k - 1 <= x <= -k + 1 for x in self.l) and all(k - 1 <= x <= k + 1 for x in self.r)
    def fill_ops(self, mirrored=False):
        a, b = (self.r, self.l) if mirrored else (self.l, self.r)
        return ["new"] + ["adv %d %d %d" % (i, a[i], b[i]) for i in range(self.w)] + ["avg"]

def spread(total, w):
    """w integers differing by at most one that sum to total"""
    base, rem = divmod(total, w)
    return [base + 1] * rem + [base] * (w - rem)

def val(line):
    p = line.split()
    return int(p[1]) if len(p) >= 2 and p[0] == "ok" else None

# ---------------------------------------------------------------- script builders
class Script:
    def __init__(self, w):
        self.w = w; self.ops = []; self.mir = []; self.meta = {}   # index -> dict(k=, win=snapshot)
        self.win = Win(w)
    def new(self):
        self.win = Win(self.w); self.ops.append("new"); self.mir.append("new")
    def adv(self, f, l, r):
        self.ops.append(self.win.adv(f, l, r)); self.mir.append("adv %d %d %d" % (f, r, l))
    def avg(self, k=None):
        if k is not None and self.win.steady(k):
            self.meta[len(self.ops)] = {"k": k, "l": list(self.win.l), "r": list(self.win.r)}
        self.ops.append("avg"); self.mir.append("avg")

def steady_sweep(sc, k):
    """Drives every (local sum, remote sum) of the steady band of lead k: entries move one at a time
    between the band edges, remote sums snake up and down while the local sum climbs."""
    w = sc.w
    sc.new()
    lo_l, lo_r = -k - 1, k - 1
    for i in range(w):
        sc.adv(i, lo_l, lo_r)
    sc.avg(k)
    up = True
    for step_l in range(2 * w + 1):
        if step_l > 0:
            i = (step_l - 1) % w
            sc.adv(i, sc.win.l[i] + 1, sc.win.r[i])
            sc.avg(k)
        for step_r in range(2 * w):
            # raise entries left to right on the way up, lower them right to left on the way down
            if up:
                i = step_r % w
                sc.adv(i, sc.win.l[i], sc.win.r[i] + 1)
            else:
                i = (2 * w - 1 - step_r) % w
                sc.adv(i, sc.win.l[i], sc.win.r[i] - 1)
            sc.avg(k)
        up = not up

def steady_histories(sc, rng, k, n):
    """Random tick patterns: stale windows, arbitrary start frame (wraparound), jitter +-1."""
    w = sc.w
    for _ in range(n):
        sc.new()
        for i in range(rng.choice([0, 0, 5, w])):          # stale garbage from "before the warm-up"
            sc.adv(rng.randrange(0, 500), rng.randrange(-40, 41), rng.randrange(-40, 41))
        f = rng.choice([0, 1, w - 1, w, 2 * w + 7, rng.randrange(0, 100000), I32_MAX - 3 * w])
        total = rng.choice([w, w + 1, 2 * w, 3 * w - 1])
        for i in range(total):
            sc.adv(f + i, -k + rng.choice([-1, 0, 0, 1]), k + rng.choice([-1, 0, 0, 1]))
            if i >= w - 1 or rng.random() < 0.15:
                sc.avg(k)

def boundary_pairs(w, span):
    out = []
    for sl in range(-span, span + 1):
        for sr in range(-span, span + 1):
            if f32_avg(sl, sr, w) != exact_avg(sl, sr, w):
                out.append((sl, sr))
    return out

def sums_script(sc, pairs):
    for sl, sr in pairs:
        sc.new()
        a, b = spread(sl, sc.w), spread(sr, sc.w)
        for i in range(sc.w):
            sc.adv(i, a[i], b[i])
        sc.avg()

def random_script(sc, rng, n):
    w = sc.w
    for _ in range(n):
        sc.new()
        mag = rng.choice([1, 3, 9, 50, 1000, 70000])
        for _ in range(rng.randrange(1, 3 * w)):
            f = rng.choice([-1, -1, 0, rng.randrange(0, 4 * w), rng.randrange(-5, 5), I32_MAX, I32_MAX - rng.randrange(40),
                            -2147483648, rng.randrange(-2147483648, 2147483648)])
            sc.adv(f, rng.randrange(-mag, mag + 1), rng.randrange(-mag, mag + 1))
            if rng.random() < 0.3:
                sc.avg()
        sc.avg()

def overflow_script(sc, rng, n):
    """entries large enough for the i32 window sum to overflow: panic (overflow checks) vs wrap"""
    w = sc.w
    big = [I32_MAX, -2147483648, I32_MAX // w, I32_MAX // w + 1, -(I32_MAX // w) - 2, 1 << 30, -(1 << 30), 0, 1, -1, 16777217, 33554433]
    for _ in range(n):
        sc.new()
        for i in range(rng.choice([1, 2, 3, w // 2, w])):
            sc.adv(rng.randrange(0, w), rng.choice(big), rng.choice(big))
            if rng.random() < 0.5:
                sc.avg()
        sc.avg()

def lfa_op(fps, now, pong, lr, lf):
    return "lfa %d %d %d %d %d" % (fps, now, pong, lr, lf)

def lfa_grid(rng, thorough):
    """in-range estimate cases: (op, k) — B at frame b, newest received frame b - floor(L*fps/1000),
    this peer at b + k, round trip 2L (or 2L+1)."""
    out = []
    for fps in FPS:
        for L in range(0, 101):
            ks = LEADS if (thorough or L % 5 == 0 or L > 95) else [rng.choice(LEADS)]
            for k in ks:
                b = rng.choice([100, 1000, rng.randrange(50, 1 << 20), (1 << 30) - 8])
                d = L * fps // 1000
                now = rng.choice([10 ** 6, rng.randrange(10 ** 4, 10 ** 13), 1758600000000])
                e = rng.choice([0, 0, 1])
                out.append((lfa_op(fps, now, now - 2 * L - e, b - d, b + k), k))
    return out

def lfa_edges(rng, n):
    out = [lfa_op(60, 10 ** 9, 0, 0, 0),                       # absurd round trip: ping*fps overflows i32
           lfa_op(60, 1758600000000, 0, 100, 90),              # pong = 0 at wall-clock time: ping saturates at i32::MAX
           lfa_op(60, 10 ** 6, 2 * 10 ** 6, 10, 5),            # pong in the future: saturating_sub -> 0
           lfa_op(60, 10 ** 6, 10 ** 6 - 100, -1, 5), lfa_op(60, 10 ** 6, 10 ** 6 - 100, 5, -1),
           lfa_op(60, 10 ** 6, 10 ** 6 - 100, 100000, 5), lfa_op(60, 10 ** 6, 10 ** 6 - 100, 5, 100000),
           lfa_op(4294967356, 10 ** 6, 10 ** 6 - 100, 100, 5), lfa_op(2147483648, 10 ** 6, 10 ** 6 - 100, 100, 5),
           lfa_op(120, 5000, 4800, I32_MAX, 0), lfa_op(120, 5000, 4800, 0, I32_MAX), lfa_op(0, 5000, 4800, 7, 3),
           lfa_op(60, 71582790 + 5000, 5000, 0, 0), lfa_op(60, 71582791 + 5000, 5000 - 1, 0, 0)]
    for _ in range(n):
        fps = rng.choice([1, 30, 60, 120, 144, 240, 1000, 65536, (1 << 31) - 1, 1 << 31, (1 << 32) + 60, rng.randrange(1, 1 << 33)])
        now = rng.randrange(1, 1 << 50)
        rtt = rng.choice([0, 1, 2, 3, 33, 199, 200, 1000, 10 ** 6, 71582788, 71582789, 71582790, 10 ** 9, now, rng.randrange(0, 1 << 34)])
        pong = max(0, now - rtt) if rng.random() < 0.9 else now + rng.randrange(1, 1000)
        lr = rng.choice([-1, 0, 1, 100, rng.randrange(0, 1 << 31), I32_MAX, I32_MAX - 2])
        lf = rng.choice([-1, 0, 1, 100, rng.randrange(0, 1 << 31), I32_MAX])
        out.append(lfa_op(fps, now, pong, lr, lf))
    return out

# ---------------------------------------------------------------- monitors
def check_steady(ctx, sc, impl, impl_m, profile, tag):
    st = ctx.cov["monitors"].setdefault("steady_" + tag + "_" + profile, {"avg_ops_in_band": 0, "panics": 0, "max_abs_sum": 0})
    for i, m in sorted(sc.meta.items()):
        k = m["k"]
        a, b = val(impl[i]), val(impl_m[i])
        st["avg_ops_in_band"] += 1
        win = Win(sc.w); win.l, win.r = m["l"], m["r"]
        rp = {"level": "timesync", "profile": profile, "k": k, "ops": win.fill_ops(False), "ops_mirrored": win.fill_ops(True)}
        if a is None or b is None:
            st["panics"] += 1
            ctx.hit("avg-panic", "average_frame_advantage fails (%s / %s) on steady windows of lead %d (local sum %d, remote sum %d, %s build)"
                    % (impl[i], impl_m[i], k, sum(m["l"]), sum(m["r"]), profile), rp)
            continue
        st["max_abs_sum"] = max(st["max_abs_sum"], abs(a + b))
        ctx.count(sample={"k": k, "local_sum": sum(m["l"]), "remote_sum": sum(m["r"]), "frames_ahead": a, "mirrored": b}
                  if (i % 9973 == 0) else None, nontrivial_key=("s", k, sum(m["l"]), sum(m["r"])))
        if abs(a - k) > 1 or abs(b + k) > 1:
            ctx.hit("avg-steady", "steady lead %d (local entries within 1 of %d, remote within 1 of %d; sums %d / %d): "
                    "average_frame_advantage = %d, mirrored peer = %d (%s build)" % (k, -k, k, sum(m["l"]), sum(m["r"]), a, b, profile), rp)
        elif abs(a + b) > 1:
            ctx.hit("avg-mirror", "steady lead %d (sums %d / %d): the two peers' frames_ahead %d and %d sum to %d (%s build)"
                    % (k, sum(m["l"]), sum(m["r"]), a, b, a + b, profile), rp)

def check_lfa(ctx, cases, impl, profile):
    st = ctx.cov["monitors"].setdefault("estimate_" + profile, {"ops": 0, "exact": 0})
    for (op, k), r in zip(cases, impl):
        st["ops"] += 1
        p = r.split()
        rp = {"level": "timesync", "profile": profile, "k": k, "op": op}
        if len(p) != 3 or p[0] != "ok":
            ctx.hit("estimate-panic", "update_local_frame_advantage / quality report fails with `%s` on `%s` (%s build)" % (r, op, profile), rp)
            continue
        adv, rep = int(p[1]), int(p[2])
        ctx.count(nontrivial_key=("e",) + tuple(op.split()[1:2]) + (int(op.split()[2]) - int(op.split()[3]), k))
        st["exact"] += (adv == -k)
        if abs(adv + k) > 1 or rep != adv:
            ctx.hit("estimate-band", "`%s`: this peer leads by %d over a link whose newest received frame left one latency ago, "
                    "local_frame_advantage = %d, reported %d (expected within 1 of %d) (%s build)" % (op, k, adv, rep, -k, profile), rp)

# ---------------------------------------------------------------- entry points
def run(ctx):
    ctx.needed_consts = ["FRAME_WINDOW_SIZE", "QUALITY_REPORT_INTERVAL"]
    ctx.proof_side()
    w = ctx.consts.get("FRAME_WINDOW_SIZE", W_FALLBACK)
    profiles = ("debug", "release")
    if not ctx.build_harness(profiles):
        return
    rng = ctx.rng
    dist = ctx.cov["input_distribution"]

    # ---- 1. the whole steady domain of the sweep theorem, on the real code (debug), with its mirror
    sweep = Script(w)
    for k in LEADS:
        steady_sweep(sweep, k)
    for prof in (profiles if ctx.thorough else ("debug",)):
        impl, _ = ctx.correspond("timesync", sweep.ops, prof, label="steady-sweep")
        impl_m, _ = ctx.correspond("timesync", sweep.mir, prof, label="steady-sweep-mirrored")
        check_steady(ctx, sweep, impl, impl_m, prof, "sweep")
    dist["steady_sweep_ops"] = len(sweep.ops); dist["steady_sweep_avg_in_band"] = len(sweep.meta)
    expected_pairs = len(LEADS) * (2 * w + 1) * (2 * w + 1)
    seen_pairs = len({(m["k"], sum(m["l"]), sum(m["r"])) for m in sweep.meta.values()})
    dist["steady_sum_pairs_expected"] = expected_pairs; dist["steady_sum_pairs_driven"] = seen_pairs
    if seen_pairs != expected_pairs:
        ctx.corr_failures.append({"what": "steady sweep generator covered %d of %d sum pairs" % (seen_pairs, expected_pairs)})

    # ---- 2. histories with jitter, stale windows, wraparound; boundary sums; random; overflow
    hist = Script(w)
    for k in LEADS:
        steady_histories(hist, rng, k, 120 if ctx.thorough else 6)
    span = 10 * w if ctx.thorough else 8 * w
    bp = boundary_pairs(w, span)
    dist["f32_vs_exact_boundary_pairs"] = len(bp); dist["boundary_span"] = span
    near = [(sl + dl, sr + dr) for (sl, sr) in bp[:: (1 if ctx.thorough else 3)] for dl, dr in ((0, 0), (1, 0), (0, 1), (-1, 0), (0, -1))]
    sums_script(hist, near)
    random_script(hist, rng, 12000 if ctx.thorough else 400)
    overflow_script(hist, rng, 5000 if ctx.thorough else 300)
    dist["history_ops"] = len(hist.ops); dist["history_avg_in_band"] = len(hist.meta)
    for prof in profiles:
        impl, _ = ctx.correspond("timesync", hist.ops, prof, label="histories")
        impl_m, _ = ctx.correspond("timesync", hist.mir, prof, label="histories-mirrored")
        check_steady(ctx, hist, impl, impl_m, prof, "hist")
        outcomes = {}
        for op, r in zip(hist.ops, impl):
            if op == "avg":
                key = r.split()[0]; outcomes[key] = outcomes.get(key, 0) + 1
        dist["avg_outcomes_" + prof] = outcomes

    # ---- 3. the estimate through a real endpoint
    grid = lfa_grid(rng, ctx.thorough)
    edges = lfa_edges(rng, 20000 if ctx.thorough else 600)
    dist["estimate_grid_ops"] = len(grid); dist["estimate_edge_ops"] = len(edges)
    for prof in profiles:
        impl, _ = ctx.correspond("timesync", [op for op, _ in grid], prof, label="estimate-grid")
        check_lfa(ctx, grid, impl, prof)
        impl, _ = ctx.correspond("timesync", edges, prof, label="estimate-edges")
        outcomes = {}
        for r in impl:
            key = r.split()[0]; outcomes[key] = outcomes.get(key, 0) + 1
            if key not in ("ok", "panic"):
                ctx.corr_failures.append({"what": "harness could not drive the endpoint: " + r[:200]})
        dist["estimate_edge_outcomes_" + prof] = outcomes

    # ---- 4. the session level: ping / stats / wait recommendations on real sessions (L4 simulation)
    from . import families as F
    from .simrun import run_scenarios
    run_scenarios(ctx, F.fam_ping(ctx.rng, 400 if ctx.thorough else 70), {"C15", "PANIC"}, "ping")
    os.environ["VERIF_GATE_TRACE"] = "1"
    try:
        res_wave = run_scenarios(ctx, F.fam_lead_wave(ctx.rng, 400 if ctx.thorough else 50), {"C15", "PANIC"}, "lead_wave")
        res_lead = run_scenarios(ctx, F.fam_lead(ctx.rng, 100 if ctx.thorough else 12), {"C15", "PANIC"}, "lead")
    finally:
        os.environ.pop("VERIF_GATE_TRACE", None)
    gate_correspondence(ctx, [res_wave, res_lead])

    ctx.cov["exhaustive"] = False
    ctx.cov["rule"] = ("windows: for every lead k in -7..=7 EVERY pair (local sum, remote sum) of the steady bands "
                       "(%d pairs) is driven through TimeSync on the real code together with the mirrored peer; plus seeded histories "
                       "(stale contents, start frames incl. wraparound and i32::MAX-90, jitter +-1), all window-sum pairs within +-%d where "
                       "binary32 and exact arithmetic disagree (and their neighbours), random entries/frames incl. -1 and i32 extremes, "
                       "overflowing entries (both profiles). estimate: L in 0..=100 ms x fps {30,60,120} x leads through a real endpoint "
                       "(handshake, Input, QualityReply, virtual clock) + seeded edge cases (fps truncation, huge/negative round trips, NULL frames). "
                       "non-trivial = distinct (k, local sum, remote sum) in band, and distinct (fps, rtt, k) estimate cases" % (expected_pairs, span))
    ctx.assumptions += [
        "f32 arithmetic of the target is IEEE-754 binary32 round-to-nearest-even without excess precision (x86-64 SSE / aarch64; checked by correspondence on this host)",
        "window entries within one frame of -k / +k (C15_avg_steady) resp. |entries| <= B with FRAME_WINDOW_SIZE*B <= i32::MAX (C15_avg_of_sums); larger entries are modelled (panic / wrap) and correspondence-tested but not covered by the steady theorems",
        "C15_avg_settles: frames f >= 0 and f + number of calls <= 2^31 (frames are non-negative i32)",
        "C15_estimate: one-way latency 0..=100 ms (rtt = 2L or 2L+1), fps 1..=1000, frames <= 2^30; outside that range ping*fps may overflow i32 (C15_estimate_overflow_witness)",
        "the link model (what last_recv_frame is relative to the remote's current frame) enters C15_estimate_band as a hypothesis; the session-level tick pattern is checked elsewhere",
        "usize is 64 bit (frame as usize)",
    ]

def gate_correspondence(ctx, results):
    """The recommendation gate of the Coq model (TimeSync.gate_step, the function C15_gate_value / C15_gate_spacing
    are about) against the real sessions: every successful advance_frame of every rollback-mode peer of the
    lead / lead_wave scenarios is one gate call (current_frame(), frames_ahead() as read right after it, and the
    WaitRecommendation it queued or none); the model replays each peer's call sequence from gate_init and must
    take the same decision with the same skip_frames at every call."""
    script, want, where = [], [], []
    for res in results:
        for name in sorted(res):
            for l in res[name]["stat"]:
                t = l.split()
                if len(t) < 4 or not t[2].startswith("gate="):
                    continue
                script.append("gnew"); want.append("ok"); where.append((name, t[2][5:], None))
                for ent in t[3:]:
                    cf, fa, w = ent.split(":")
                    script.append("gate %s %s" % (cf, fa)); want.append("none" if w == "-" else "wait " + w)
                    where.append((name, t[2][5:], ent))
    st = ctx.cov["correspondence"].setdefault("wait-gate/debug", {"ops": 0, "disagreements": 0, "skipped_for_model": 0, "recommendations": 0, "peers": 0})
    if not script:
        ctx.corr_failures.append({"what": "correspondence wait-gate: the simulation produced no gate trace (VERIF_GATE_TRACE)"})
        return
    model = ctx.run_model("timesync", script, "debug")
    for op, a, b, w in zip(script, want, model, where):
        st["ops"] += 1
        st["peers"] += op == "gnew"
        st["recommendations"] += a.startswith("wait")
        if a != b:
            st["disagreements"] += 1
            if len(ctx.corr_failures) < 50:
                ctx.corr_failures.append({"what": "correspondence wait-gate/debug", "op": op, "impl": a, "model": b,
                                          "scenario": w[0], "peer": w[1]})
    ctx.cov["input_distribution"]["gate_calls"] = st["ops"] - st["peers"]
    ctx.cov["input_distribution"]["gate_recommendations"] = st["recommendations"]

def replay(ctx, path):
    body = json.load(open(path))
    ctx.needed_consts = []
    ctx.consts = {}
    ctx.build_harness(("debug", "release"))
    bad = 0
    for h in body.get("failing_inputs", []):
        rp = h["replay"]; prof = rp.get("profile", "debug"); k = rp.get("k", 0)
        if "ops" in rp:
            a = ctx.run_impl("timesync", rp["ops"], prof)[-1]
            b = ctx.run_impl("timesync", rp["ops_mirrored"], prof)[-1]
            print("replay lead", k, "avg ->", a, "| mirrored ->", b)
            va, vb = val(a), val(b)
            if va is None or vb is None or abs(va - k) > 1 or abs(vb + k) > 1 or abs(va + vb) > 1:
                bad += 1
        elif "op" in rp:
            r = ctx.run_impl("timesync", [rp["op"]], prof)[0]
            print("replay", rp["op"], "->", r)
            p = r.split()
            if len(p) != 3 or p[0] != "ok" or abs(int(p[1]) + k) > 1 or p[1] != p[2]:
                bad += 1
    if bad:
        print("VIOLATION property=C15 replay=%s" % path)
    return 1 if bad else 0
