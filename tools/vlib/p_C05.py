"""C05 — transient network faults never wedge a session."""
from . import families as F
from .simprops import generic_run, sizes, sim_replay
from .p_endpoint import run_endpoint_correspondence
LABELS = {"C05", "C01", "PANIC"}
def run(ctx):
    k, m = (2, 10) if not ctx.thorough else (3, 16)
    generic_run(ctx, LABELS, extra=run_endpoint_correspondence, plan=[("faults", lambda: F.fam_faults(ctx.rng, sizes(ctx, 150, 1200), exhaustive_k=k, exhaustive_m=m)),
                              ("starve", lambda: F.fam_starve(ctx.rng, sizes(ctx, 40, 300))),
                              ("spectator", lambda: F.fam_spectator(ctx.rng, sizes(ctx, 60, 400))),
                              ("handshake_outage", lambda: F.fam_handshake_outage(ctx.rng, sizes(ctx, 40, 300)))])
def replay(ctx, path):
    return sim_replay(ctx, path, LABELS)
