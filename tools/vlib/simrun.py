"""Runs scenario families on the L4 simulation level and routes monitor hits to the property."""
import json, os, subprocess, time
from . import core
from .scen import parse_output

def run_scenarios(ctx, scens, labels, family, profile="debug", known_class=None):
    """scens: list of Scen.  labels: set of HIT labels that count for this property
    (e.g. {"C01","PANIC"}).  Returns parsed results."""
    if not scens:
        return {}
    rendered = {s.name: s.render() for s in scens}
    t = time.time()
    # shards: the harness reads a whole script before it starts; thousands of scenarios in one process hit
    # its 1 GiB allocation limit (thorough tier)
    CH = 300
    chunks = [scens[i:i + CH] for i in range(0, len(scens), CH)]
    def one(chunk):
        txt = "\n".join(l for s in chunk for l in rendered[s.name]) + "\n"
        try:
            p = subprocess.run([ctx.bins[profile], "sim"], input=txt.encode(), stdout=subprocess.PIPE,
                               stderr=subprocess.PIPE, timeout=3000)
            return p.stdout.decode("utf-8", "replace").splitlines(), p.returncode, p.stderr.decode("utf-8", "replace")[-500:]
        except subprocess.TimeoutExpired:
            return [], 124, "timeout"
    import concurrent.futures as cf
    out, rc, err = [], 0, ""
    with cf.ThreadPoolExecutor(max_workers=min(6, max(1, len(chunks)))) as ex:
        for o, r, e in ex.map(one, chunks):
            out += o
            if r != 0:
                rc, err = r, e
    res = parse_output(out)
    st = ctx.cov["monitors"].setdefault(family, {"scenarios": 0, "ops": 0, "frames": 0, "rollbacks": 0, "hits": 0, "wall_s": 0.0})
    st["wall_s"] = round(st["wall_s"] + time.time() - t, 2)
    if rc != 0 or len(res) < len(scens):
        ctx.hit("harness-crash", "the simulation harness died (rc=%s) while running family %s: %d of %d scenarios finished" % (rc, family, len(res), len(scens)),
                {"level": "sim", "family": family, "stderr": err})
    for s in scens:
        r = res.get(s.name)
        if r is None:
            continue
        st["scenarios"] += 1
        st["ops"] += len(rendered[s.name])
        frames = loads = 0
        for l in r["stat"]:
            for tok in l.split():
                if tok.startswith("frames="): frames += int(tok[7:])
                if tok.startswith("loads="): loads += int(tok[6:])
        st["frames"] += frames; st["rollbacks"] += loads
        nontrivial = frames >= 30
        ctx.count(sample={"scenario": s.name, "cfg": s.cfg, "ops": len(rendered[s.name]), "frames_simulated": frames, "rollbacks": loads} if nontrivial else None,
                  nontrivial_key=(family, s.name, tuple(sorted(r["obs"].items()))) if nontrivial else None)
        gap = 0
        for l in r["stat"]:
            for tok in l.split():
                if tok.startswith("gap="): gap = int(tok[4:])
        for (prop, cls, what) in r["hits"]:
            if known_class:
                cls = known_class(prop, cls, gap, s)
            if prop in labels:
                st["hits"] += 1
                ctx.hit(cls, "%s [%s] %s" % (prop, s.name, what), {"level": "sim", "family": family, "scenario": rendered[s.name], "label": prop})
    return res

def replay(ctx, path, labels):
    body = json.load(open(path))
    ctx.consts = {}
    ctx.build_harness(("debug",))
    bad = 0
    for h in body.get("failing_inputs", []):
        rp = h["replay"]
        if rp.get("level") != "sim" or "scenario" not in rp:
            continue
        txt = "\n".join(rp["scenario"]) + "\n"
        p = subprocess.run([ctx.bins["debug"], "sim"], input=txt.encode(), stdout=subprocess.PIPE, timeout=600)
        hits = [l for l in p.stdout.decode().splitlines() if l.startswith("HIT") and l.split()[1] in labels]
        for l in hits[:3]:
            print("replay:", l[:300])
        bad += bool(hits)
    if bad:
        print("VIOLATION property=%s replay=%s" % (ctx.pid, path))
    return 1 if bad else 0
