"""C18 — internal buffers stay bounded over arbitrarily long sessions."""
from . import families as F
from .simprops import generic_run, sizes, sim_replay
from .p_endpoint import run_endpoint_correspondence
LABELS = {"C18", "C12", "PANIC"}
def run(ctx):
    generic_run(ctx, LABELS, extra=run_endpoint_correspondence, plan=[("checksum_reorder", lambda: F.fam_checksum_reorder(ctx.rng, sizes(ctx, 12, 120))), ("long", lambda: F.fam_long(ctx.rng, sizes(ctx, 14, 150))), ("nodrain", lambda: F.fam_long(ctx.rng, sizes(ctx, 6, 60), tag="nd", duration=30000, nodrain=1)), ("all_local", lambda: F.fam_all_local(ctx.rng, sizes(ctx, 30, 300))), ("silent_spectator", lambda: F.fam_silent_spectator(ctx.rng, sizes(ctx, 30, 300))), ("death_long", lambda: F.fam_death_long(ctx.rng, sizes(ctx, 12, 100))), ("lead", lambda: F.fam_lead(ctx.rng, sizes(ctx, 20, 100))), ("event_flood", lambda: F.fam_event_flood(ctx.rng, sizes(ctx, 12, 100)))])
def replay(ctx, path):
    return sim_replay(ctx, path, LABELS)
