"""C16 (builder part) — SessionBuilder accepts exactly the documented configurations, rejects every
other one with InvalidRequest at the documented call, and every session it returns can be polled and
advanced without panicking.

proof side   : coq/props/C16.v (model Builder.v == reference predicate BuilderSpec.v, for all call lists)
correspondence: level `builder` — the extracted model and the real SessionBuilder on the same scenarios
monitors     : (independent of the Coq model) a Python transcription of the documentation decides every
               scenario; the real builder must agree on Ok/Err and on the index of the rejected call, must
               never panic, and accepted sessions must survive being polled/advanced through the public API.
"""
import itertools, json
from . import core

FRAMES = 40

# ---------------------------------------------------------------- scenario syntax
# a call is a tuple: ("np",n) ("add","L",h) ("add","R",h,a) ("add","S",h,a) ("win",n) ("delay",n)
# ("sparse",0|1) ("desync","off"|n) ("dto",ms) ("dnd",ms) ("fps",n) ("cd",n) ("mfb",n) ("cs",n)
# a finisher: ("p2p",) ("spec",addr) ("sync",)

def fmt(calls, fin):
    return " ; ".join(" ".join(str(x) for x in c) for c in list(calls) + [fin])

def parse(line):
    items = [it.split() for it in line.split(";")]
    conv = lambda t: tuple(int(x) if x.lstrip("-").isdigit() else x for x in t)
    return [conv(t) for t in items[:-1]], conv(items[-1])

# ---------------------------------------------------------------- the documentation, transcribed
# (src/sessions/builder.rs doc comments; defaults as documented: "Default is 2" players, window 8,
#  check distance 2, input delay 0; sparse saving and desync detection are off unless set)

def handle_ok(kind, h, num_players):
    # "Local and remote player handles must be in 0..num_players, while spectator handles must be >= num_players."
    return (0 <= h < num_players) if kind in ("L", "R") else (h >= num_players)

def reference(calls, fin, spectator_buffer_size):
    """None if the documentation allows the whole scenario, else the index of the first call it
    rejects (len(calls) = the finisher)."""
    num_players, window, check_distance, sparse, desync = 2, 8, 2, False, "off"
    registered = {}                      # handle -> (kind, addr)
    for i, c in enumerate(calls):
        op = c[0]
        if op == "add":
            kind, h = c[1], c[2]
            if h in registered:          # "a player with that handle has been added before"
                return i
            if not handle_ok(kind, h, num_players):   # "the handle is invalid for the given PlayerType"
                return i
            registered[h] = (kind, c[3] if kind != "L" else None)
        elif op == "np":
            n = c[1]
            if n == 0:                   # "Must be at least 1."
                return i
            if any(not handle_ok(k, h, n) for h, (k, _) in registered.items()):
                return i                 # "already-registered player handles would become invalid"
            num_players = n
        elif op == "fps":
            if c[1] == 0:
                return i
        elif op == "mfb":
            if c[1] == 0 or c[1] >= spectator_buffer_size:
                return i
        elif op == "cs":
            if c[1] == 0:
                return i
        elif op == "win":
            window = c[1]
        elif op == "cd":
            check_distance = c[1]
        elif op == "sparse":
            sparse = bool(c[1])
        elif op == "desync":
            desync = c[1]
        # delay, dto, dnd: no documented error
    n = len(calls)
    if fin[0] == "p2p":
        if desync != "off" and desync == 0:      # "requires an interval higher than 0 when starting a P2P session"
            return n
        if any(h not in registered for h in range(num_players)):   # "insufficient players have been registered"
            return n
    elif fin[0] == "sync":
        if check_distance >= window:             # "check_distance is greater than or equal to max_prediction_window"
            return n
        if sparse:                               # "sparse saving is enabled"
            return n
    return None

def expected_summary(calls, fin):
    """What the public accessors of an accepted session must report, from their documentation."""
    num_players, window, check_distance, desync = 2, 8, 2, "off"
    registered = {}
    for c in calls:
        if c[0] == "add":
            registered[c[2]] = (c[1], c[3] if c[1] != "L" else None)
        elif c[0] == "np":
            num_players = c[1]
        elif c[0] == "win":
            window = c[1]
        elif c[0] == "cd":
            check_distance = c[1]
        elif c[0] == "desync":
            desync = c[1]
    lst = lambda xs: ",".join(str(x) for x in sorted(xs)) or "-"
    if fin[0] == "spec":
        return "spec np=%d state=S" % num_players
    if fin[0] == "sync":
        return "sync np=%d win=%d cd=%d" % (num_players, window, check_distance)
    loc = [h for h, (k, _) in registered.items() if k == "L"]
    rem = [h for h, (k, _) in registered.items() if k == "R"]
    spe = [h for h, (k, _) in registered.items() if k == "S"]
    addrs = sorted(set(a for (k, a) in registered.values() if k != "L"))
    by = "/".join("%d:%s" % (a, lst([h for h, (k, x) in registered.items() if k != "L" and x == a])) for a in addrs) or "-"
    return "p2p state=%s np=%d ns=%d local=%s remote=%s spec=%s addr=%s win=%d lockstep=%d desync=%s" % (
        "R" if not addrs else "S", len(loc) + len(rem), len(spe), lst(loc), lst(rem), lst(spe), by,
        window, 1 if window == 0 else 0, desync)

# ---------------------------------------------------------------- scenario families
FINISHERS = [("p2p",), ("spec", 5), ("sync",)]

ALPHA_QUICK = [
    ("np", 0), ("np", 1), ("np", 2), ("np", 3),
    ("add", "L", 0), ("add", "L", 1), ("add", "L", 2), ("add", "R", 0, 7), ("add", "R", 1, 7), ("add", "R", 2, 8),
    ("add", "S", 1, 9), ("add", "S", 2, 9), ("add", "S", 3, 7),
    ("win", 0), ("win", 2), ("win", 3), ("cd", 0), ("cd", 3), ("sparse", 1), ("desync", 0), ("desync", 1),
    ("fps", 0), ("mfb", 0), ("mfb", 59), ("mfb", 60), ("cs", 0), ("delay", 16),
]
# smaller alphabet for the deeper exhaustive family of the thorough tier (length <= 5)
ALPHA_DEEP = [
    ("np", 1), ("np", 2), ("np", 3), ("add", "L", 0), ("add", "L", 1), ("add", "R", 1, 7), ("add", "R", 2, 7),
    ("add", "S", 2, 9), ("add", "S", 3, 9), ("win", 0), ("sparse", 1),
]
# prefixes after which every sequence of length <= 2 is explored (so that accepted P2P sessions with
# remotes and spectators are reached within the exhaustive family)
PREFIXES = [
    [("add", "L", 0), ("add", "R", 1, 7)],
    [("np", 3), ("add", "L", 0), ("add", "R", 1, 7), ("add", "R", 2, 7)],
    [("add", "L", 0), ("add", "L", 1), ("add", "S", 2, 9)],
]

def exhaustive(alpha, maxlen):
    for l in range(maxlen + 1):
        for seq in itertools.product(alpha, repeat=l):
            yield list(seq)

def rand_call(rng):
    k = rng.randrange(14)
    if k <= 3:
        kind = rng.choice("LLRRS")
        h = rng.randrange(0, 7)
        return ("add", "L", h) if kind == "L" else ("add", kind, h, rng.choice([7, 8, 9]))
    if k == 4:
        return ("np", rng.randrange(0, 6))
    if k == 5:
        return ("win", rng.randrange(0, 17))
    if k == 6:
        return ("delay", rng.randrange(0, 17))
    if k == 7:
        return ("cd", rng.randrange(0, 18))
    if k == 8:
        return ("sparse", rng.randrange(2))
    if k == 9:
        return ("desync", rng.choice(["off", 0, 1, 10, 4294967295]))
    if k == 10:
        return ("fps", rng.choice([0, 1, 30, 60, 1000]))
    if k == 11:
        return ("mfb", rng.choice([0, 1, 10, 58, 59, 60, 61, 1000]))
    if k == 12:
        return ("cs", rng.choice([0, 1, 2, 100]))
    return (rng.choice(["dto", "dnd"]), rng.choice([0, 1, 500, 2000, 100000]))

def rand_valid(rng):
    """A documented-valid configuration: pick num_players, register every player, spectators above."""
    n = rng.randrange(1, 5)
    calls = [("np", n)] if (n != 2 or rng.random() < 0.5) else []
    adds = []
    for h in range(n):
        adds.append(("add", "L", h) if rng.random() < 0.5 else ("add", "R", h, rng.choice([7, 8])))
    for s in range(rng.choice([0, 0, 1, 2])):
        adds.append(("add", "S", n + s + rng.randrange(2) * 2, rng.choice([8, 9])))
    seen, uniq = set(), []
    for a in adds:
        if a[2] not in seen:
            seen.add(a[2]); uniq.append(a)
    rng.shuffle(uniq)
    calls += uniq
    w = rng.randrange(0, 17)
    extras = [("win", w), ("delay", rng.randrange(0, 17)), ("cd", rng.randrange(0, max(1, w))), ("fps", rng.choice([1, 30, 60])),
              ("mfb", rng.randrange(1, 60)), ("cs", rng.randrange(1, 5)), ("desync", rng.choice(["off", 1, 10])),
              ("sparse", rng.randrange(2)), ("dto", rng.choice([0, 500, 2000])), ("dnd", rng.choice([0, 500]))]
    for e in rng.sample(extras, rng.randrange(0, 5)):
        calls.insert(rng.randrange(len(calls) + 1), e)
    return calls

def rand_scenario(rng, maxlen=8):
    r = rng.random()
    if r < 0.4:
        calls = [rand_call(rng) for _ in range(rng.randrange(0, maxlen + 1))]
    else:
        calls = rand_valid(rng)
        if r < 0.75:                                  # one or two mutations of a valid run
            for _ in range(rng.choice([1, 1, 2])):
                m = rng.randrange(4)
                if m == 0 and calls:
                    del calls[rng.randrange(len(calls))]
                elif m == 1:
                    calls.insert(rng.randrange(len(calls) + 1), rand_call(rng))
                elif m == 2 and calls:
                    calls[rng.randrange(len(calls))] = rand_call(rng)
                else:
                    calls.append(("np", rng.randrange(0, 6)))
        calls = calls[:maxlen + 4]
    return calls, rng.choice(FINISHERS[:1] * 3 + FINISHERS[1:] * 1 + [("spec", rng.choice([7, 8, 9]))])

# ---------------------------------------------------------------- checks
def strip(line):
    return line.split(" | drive ")[0].split(" #")[0]

def check_builder(ctx, scen, impl, sbs, st):
    """Implementation-side monitor: real builder vs. the documentation (Python reference)."""
    accepted = []
    for (calls, fin), r in zip(scen, impl):
        line = fmt(calls, fin)
        want = reference(calls, fin, sbs)
        body = strip(r)
        st["scenarios"] += 1
        rp = {"level": "builder", "op": line}
        if body.startswith(("panic", "crash", "noresult")):
            ctx.hit("builder-panic", "SessionBuilder panics/aborts on `%s`: %s" % (line, r[:120]), rp)
            continue
        if body.startswith("err-other"):
            ctx.hit("builder-error-kind", "SessionBuilder rejects `%s` with an error other than InvalidRequest: %s" % (line, r[:120]), rp)
            continue
        if body.startswith("ok "):
            st["accepted_" + fin[0]] = st.get("accepted_" + fin[0], 0) + 1
            if want is not None:
                ctx.hit("builder-accepts-invalid", "SessionBuilder accepts `%s`, but the documentation rejects call #%d (`%s`)" %
                        (line, want, " ".join(str(x) for x in (list(calls) + [fin])[want])), rp)
                continue
            exp = expected_summary(calls, fin)
            if body[3:] != exp:
                ctx.hit("builder-summary", "session built by `%s` reports `%s`, documentation implies `%s`" % (line, body[3:], exp), rp)
            accepted.append((calls, fin))
            ctx.count(sample={"scenario": line, "result": body} if len(calls) >= 3 and fin[0] == "p2p" else None,
                      nontrivial_key=("ok", line))
        elif body.startswith("err "):
            got = int(body.split()[1])
            st["rejected_at"][str(got if got < len(calls) else "finisher")] = st["rejected_at"].get(str(got if got < len(calls) else "finisher"), 0) + 1
            if want is None:
                ctx.hit("builder-rejects-valid", "SessionBuilder rejects `%s` at call #%d, but the documentation allows every call" % (line, got), rp)
            elif want != got:
                ctx.hit("builder-wrong-call", "SessionBuilder rejects `%s` at call #%d, the documentation rejects call #%d first" % (line, got, want), rp)
            ctx.count(nontrivial_key=("err", line) if got > 0 else None)
        else:
            ctx.hit("builder-panic", "harness produced no verdict for `%s`: %s" % (line, r[:120]), rp)
    return accepted

def kind_of(summary_line):
    return summary_line.split()[1]

def check_drive(ctx, accepted, results, plain, st):
    """Every accepted session is polled and advanced FRAMES frames through the public API."""
    for (calls, fin), r in zip(accepted, results):
        line = fmt(calls, fin)
        rp = {"level": "builder", "op": "drive %d : %s" % (FRAMES, line)}
        st["driven"] += 1
        if " | drive " not in r:
            ctx.hit("session-panic", "driving the session built by `%s` gave `%s`" % (line, r[:160]), rp)
            continue
        head, tail = r.split(" | drive ")
        if head != plain[line]:
            ctx.hit("builder-nondeterministic", "`%s` built `%s` and then `%s`" % (line, plain[line], head), rp)
        d = dict(kv.split("=", 1) for kv in tail.split())
        if d["panic"] != "-":
            iv = [c[1] for c in calls if c[0] == "desync"]
            big = kind_of(head) == "p2p" and iv and iv[-1] != "off" and iv[-1] >= 2 ** 31
            ctx.hit("session-panic-desync-interval>=2^31" if big else "session-panic",
                    "session built by `%s` panics when polled/advanced: %s" % (line, d["panic"][:160]), rp)
            continue
        n = int(d["frames"])
        kind = head.split()[1]
        running = " state=R " in head + " "
        key = kind + ("-running" if running else "") if kind == "p2p" else kind
        st["driven_" + key] = st.get("driven_" + key, 0) + 1
        if kind == "sync" or (kind == "p2p" and running):
            # all players local: every frame must be accepted and advance the game
            # (an all-local P2P session with window 1 emits AdvanceFrame only on every second call, so the
            #  number of AdvanceFrame requests is recorded, not required to equal the number of calls)
            st["min_advances"] = min(st.get("min_advances", n), int(d["adv"]))
            if int(d["ok"]) != n or int(d["adv"]) < 1:
                ctx.hit("session-advance", "session built by `%s` does not run: %s" % (line, tail), rp)
        else:
            # endpoints that never answer: documented NotSynchronized, every frame
            if int(d["notsync"]) != n:
                ctx.hit("session-advance", "unsynchronised session built by `%s` did not answer NotSynchronized: %s" % (line, tail), rp)

def run(ctx):
    ctx.needed_consts = ["SPECTATOR_BUFFER_SIZE", "DEFAULT_PLAYERS", "DEFAULT_MAX_PREDICTION_FRAMES", "DEFAULT_CHECK_DISTANCE",
                         "DEFAULT_INPUT_DELAY", "DEFAULT_FPS", "DEFAULT_MAX_FRAMES_BEHIND", "DEFAULT_CATCHUP_SPEED",
                         "DEFAULT_DISCONNECT_TIMEOUT", "DEFAULT_DISCONNECT_NOTIFY_START"]
    ctx.proof_side()
    if not ctx.build_harness(("debug",)):
        return
    run_builder(ctx)
    run_misuse(ctx)
    from .p_session import run_session_correspondence
    run_session_correspondence(ctx, n=(400 if ctx.thorough else 60))   # the run-time theorem is about the session-core model

def run_misuse(ctx):
    """The run-time half: misuse calls inserted at arbitrary points of valid runs must return the
    documented error and leave the continuation identical to the misuse-free twin run (L4 simulation)."""
    from . import families as F
    from .simrun import run_scenarios
    from .simprops import pairs_equal
    pairs = F.fam_misuse(ctx.rng, 400 if ctx.thorough else 60)
    flat = [x for pr in pairs for x in pr]
    res = run_scenarios(ctx, flat, {"C16", "PANIC"}, "misuse")
    pairs_equal(ctx, pairs, res, "misuse", label="C16", what="misuse calls inserted")
    pairs = F.fam_misuse_disc_again(ctx.rng, 200 if ctx.thorough else 40)
    flat = [x for pr in pairs for x in pr]
    res = run_scenarios(ctx, flat, {"C16", "PANIC"}, "misuse_disc_again")
    pairs_equal(ctx, pairs, res, "misuse_disc_again", label="C16", what="repeated disconnect_player calls inserted")
    # advancing before synchronisation: handshakes under loss/dup/reorder with late spectators; every accepted
    # advance_frame is checked against the endpoints' handshake states (hook accessor)
    run_scenarios(ctx, F.fam_handshake(ctx.rng, 400 if ctx.thorough else 60, tag="hs16"), {"C16", "PANIC"}, "handshake")

def run_builder(ctx):
    """The builder half of C16 (needs ctx.consts and ctx.bins: call after proof_side/build_harness)."""
    rng = ctx.rng
    sbs = ctx.consts.get("SPECTATOR_BUFFER_SIZE", 60)
    dist = ctx.cov["input_distribution"]
    # ---- scenario set ----
    scen = []
    maxlen = 3
    for seq in exhaustive(ALPHA_QUICK, maxlen):
        for fin in FINISHERS:
            scen.append((seq, fin))
    n_exh = len(scen)
    for pre in PREFIXES:
        for seq in exhaustive(ALPHA_QUICK, 2):
            for fin in FINISHERS:
                scen.append((pre + seq, fin))
    n_pre = len(scen) - n_exh
    n_deep = 0
    if ctx.thorough:
        for seq in itertools.product(ALPHA_QUICK, repeat=4):
            for fin in FINISHERS:
                scen.append((list(seq), fin)); n_deep += 1
        for seq in exhaustive(ALPHA_DEEP, 5):
            if len(seq) > 3:
                for fin in FINISHERS:
                    scen.append((seq, fin)); n_deep += 1
    n_rand = 150000 if ctx.thorough else 20000
    for _ in range(n_rand):
        scen.append(rand_scenario(rng, 8))
    dist.update({"exhaustive_len<=%d_over_%d_calls_x3_finishers" % (maxlen, len(ALPHA_QUICK)): n_exh,
                 "prefix_families": n_pre, "thorough_only_len4_over_%d_calls_and_len4-5_over_%d_calls" % (len(ALPHA_QUICK), len(ALPHA_DEEP)): n_deep,
                 "random_len<=8(+mutations)": n_rand})
    script = [fmt(c, f) for c, f in scen]
    # ---- correspondence: model vs implementation, scenario by scenario ----
    impl, model = ctx.correspond("builder", script, "debug", canon=strip)
    # ---- monitor 1: implementation vs documentation ----
    st = ctx.cov["monitors"].setdefault("builder_vs_documentation", {"scenarios": 0, "rejected_at": {}})
    accepted = check_builder(ctx, scen, impl, sbs, st)
    # ---- monitor 2: accepted sessions can be polled and advanced ----
    # quick: every accepted session of the exhaustive families + the random ones;
    # (deduplicated by scenario text)
    seen, todo = set(), []
    for c, f in accepted:
        l = fmt(c, f)
        if l not in seen:
            seen.add(l); todo.append((c, f))
    dst = ctx.cov["monitors"].setdefault("accepted_sessions_driven", {"driven": 0, "frames_each": FRAMES})
    dst["accepted_distinct"] = len(todo)
    if len(todo) > 250000:          # thorough tier only: keep the run within its time budget
        rng.shuffle(todo)
        todo = todo[:250000]
    plain = {}
    for l, r in zip(script, impl):
        plain.setdefault(l, strip(r))
    res = ctx.run_impl("builder", ["drive %d : %s" % (FRAMES, fmt(c, f)) for c, f in todo], timeout=1500)
    check_drive(ctx, todo, res, plain, dst)
    ctx.cov["rule"] = ("ALL call sequences of length <= %d over a %d-call alphabet (every fallible method with valid and invalid "
                       "values, all three player types, re-validation by with_num_players) x 3 finishers; all length <= 2 "
                       "extensions of 3 valid multi-endpoint prefixes; %s seeded random sequences of length <= 8(+4) over wider "
                       "domains (handles 0..6, num_players 0..5, window/delay 0..16, check distance 0..17) of which 60%% are "
                       "valid configurations with 0-2 mutations; every accepted session driven %d frames. "
                       "non-trivial = distinct accepted scenarios + distinct scenarios rejected after at least one accepted call"
                       % (maxlen, len(ALPHA_QUICK), ("length 4 over the same alphabet and length 4-5 over %d calls; " % len(ALPHA_DEEP)) if ctx.thorough else "", FRAMES))
    ctx.cov["exhaustive"] = False
    ctx.cov["exhaustive_note"] = "bounded: sequence length and value domains as stated; the Coq theorem covers all lengths and values"
    ctx.assumptions += [
        "arguments are unsigned (usize/u32/Duration) — hypothesis `Forall usize_call cs` of C16_builder_spec",
        "DEFAULT_SAVE_MODE=false and DEFAULT_DETECTION_MODE=Off are written in the model (not numeric constants); "
        "the correspondence level observes both defaults (synctest accepts the default builder, desync_detection() prints off)",
        "endpoint objects are not observable through the public API: the per-address handle sets are observed through "
        "handles_by_address(); the endpoint list itself is a property of the model only (C16_p2p_shape)",
        "num_players <= 5 in executed scenarios (session constructors allocate per player); delay/window within 0..=16",
    ]

def replay(ctx, path):
    body = json.load(open(path))
    ctx.needed_consts = []
    rc, out = core.sh("python3 %s/tools/consts.py" % core.ROOT, timeout=60)
    consts = dict((l.split()[1], int(l.split()[2])) for l in out.splitlines() if l.startswith("CONST"))
    sbs = consts.get("SPECTATOR_BUFFER_SIZE", 60)
    if not ctx.build_harness(("debug",)):
        return 1
    bad = 0
    for h in body.get("failing_inputs", []):
        op = h["replay"]["op"]
        res = ctx.run_impl("builder", [op])
        line = op.split(" : ", 1)[1] if op.startswith("drive ") else op
        calls, fin = parse(line)
        want = reference(calls, fin, sbs)
        print("replay `%s` -> %s   (documentation: %s)" % (op, res, "valid" if want is None else "rejects call #%d" % want))
        r = res[0] if res else "noresult"
        b = strip(r)
        fails = b.startswith(("panic", "crash", "noresult", "err-other"))
        if b.startswith("ok "):
            fails |= want is not None or b[3:] != expected_summary(calls, fin)
            if " | drive " in r:
                d = dict(kv.split("=", 1) for kv in r.split(" | drive ")[1].split())
                kind = b.split()[1]
                runs = kind == "sync" or (kind == "p2p" and " state=R " in b)
                fails |= d["panic"] != "-" or (int(d["ok"]) != int(d["frames"]) if runs else int(d["notsync"]) != int(d["frames"]))
        elif b.startswith("err "):
            fails |= want is None or want != int(b.split()[1])
        if fails:
            bad += 1
    if bad:
        print("VIOLATION property=C16 replay=%s" % path)
    return 1 if bad else 0
