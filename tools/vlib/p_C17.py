"""C17 — session behaviour is a function of its inputs, not of hash order."""
from . import families as F
from .simprops import generic_run, sizes, sim_replay
from .p_session import run_session_correspondence
LABELS = {"C17", "PANIC"}
def run(ctx):
    generic_run(ctx, LABELS, extra=run_session_correspondence, plan=[("repeat", lambda: F.fam_c01(ctx.rng, sizes(ctx, 300, 3000), tag="c17", expect=("nodisconnect", "repeat"))),
                              ("repeat_double_death", lambda: F.fam_double_death(ctx.rng, sizes(ctx, 60, 600), tag="c17dd", expect=("repeat",))),
                              ("repeat_delay", lambda: F.fam_delay(ctx.rng, sizes(ctx, 120, 1200), tag="c17d", expect=("nodisconnect", "repeat")))])
def replay(ctx, path):
    return sim_replay(ctx, path, LABELS)
