"""C17 — session behaviour is a function of its inputs, not of hash order.

levels: L4 simulation with `repeat` (every scenario is run twice, all observations compared), session
correspondence (model = a function of the script, so any hash-order dependence shows as a disagreement),
and `desync-repeat`: desync-detection scripts for one real P2PSession (several checksum reports pending at
once, some of them wrong) are run in independent processes - HashMap seeds differ per process - and every
answer line (reports sent, DesyncDetected events with their order per call, histories, pending maps in
canonical order) must be identical."""
import json
from . import families as F
from .simprops import generic_run, sizes, sim_replay
from .p_session import run_session_correspondence
from . import p_C09
LABELS = {"C17", "PANIC"}

REPEATS = 4

def first_difference(scens, outs):
    i = 0
    for s in scens:
        n = len(s["lines"])
        ref = outs[0][i:i + n]
        for k in range(1, len(outs)):
            other = outs[k][i:i + n]
            for j, (a, b) in enumerate(zip(ref, other)):
                if a != b:
                    return s, j, a, b
        i += n
    return None

def run_desync_repeat(ctx):
    rng = ctx.rng
    n = 240 if ctx.thorough else 40
    scens = [p_C09.gen_scenario(rng, honest=False) for _ in range(n)]
    script = [l for s in scens for l in s["lines"]]
    outs = [ctx.run_impl("desync", script, "debug") for _ in range(REPEATS)]
    mon = ctx.cov["monitors"].setdefault("desync_repeat", {"scenarios": 0, "ops": 0, "runs_each": REPEATS, "calls_with_two_or_more_pending": 0, "events": 0})
    mon["scenarios"] += n; mon["ops"] += len(script)
    for r in outs[0]:
        m = p_C09.DS.search(r)
        if m:
            mon["calls_with_two_or_more_pending"] += m.group(7).count(":") >= 2
            mon["events"] += m.group(4) != "-"
    d = first_difference(scens, outs)
    if d:
        s, j, a, b = d
        ctx.hit("hash-order", "the same script gives different answers in two runs: op #%d `%s` -> `%s` vs `%s` (%s)" %
                (j, s["lines"][j], a[-150:], b[-150:], s["lines"][0]), {"level": "desync-repeat", "scenario": s})
    for s in scens:
        ctx.count(nontrivial_key=("desync-repeat", s["lines"][0], len(s["lines"])))
    ctx.cov["traces_validated_against_impl"] += len(script) * (REPEATS - 1)

def extra(ctx):
    run_session_correspondence(ctx)
    run_desync_repeat(ctx)
    # survivors with different views of a dropped player: the region of the recorded C10 finding, where only
    # "both runs identical" is asked (label C17 alone; see the family)
    from .simrun import run_scenarios
    run_scenarios(ctx, F.fam_third_party_views(ctx.rng, sizes(ctx, 40, 400)), {"C17"}, "repeat_third_party_views")

def run(ctx):
    generic_run(ctx, LABELS, extra=extra, plan=[("repeat", lambda: F.fam_c01(ctx.rng, sizes(ctx, 300, 3000), tag="c17", expect=("nodisconnect", "repeat"))),
                              ("repeat_double_death", lambda: F.fam_double_death(ctx.rng, sizes(ctx, 60, 600), tag="c17dd", expect=("repeat",))),
                              ("repeat_delay", lambda: F.fam_delay(ctx.rng, sizes(ctx, 120, 1200), tag="c17d", expect=("nodisconnect", "repeat"))),
                              ("repeat_two_drops_gossip", lambda: F.fam_two_drops_gossip(ctx.rng, sizes(ctx, 40, 400))),
                              ("repeat_handshake_late", lambda: F.fam_handshake_late(ctx.rng, sizes(ctx, 80, 800)))])

def replay(ctx, path):
    body = json.load(open(path))
    bad = 0
    rest = []
    for h in body.get("failing_inputs", []):
        rp = h.get("replay", {})
        if rp.get("level") == "desync-repeat":
            ctx.needed_consts = []; ctx.consts = {}
            ctx.build_harness(("debug",))
            outs = [ctx.run_impl("desync", rp["scenario"]["lines"], "debug") for _ in range(3 * REPEATS)]
            d = first_difference([rp["scenario"]], outs)
            print("replay desync-repeat scenario (%d ops, %d runs) -> %s" % (len(outs[0]), len(outs), ("op #%d differs: `%s` vs `%s`" % (d[1], d[2][-120:], d[3][-120:])) if d else "all runs agree"))
            bad += bool(d)
        else:
            rest.append(h)
    if rest or not body.get("failing_inputs"):
        rc = sim_replay(ctx, path, LABELS)
        return 1 if (rc or bad) else 0
    if bad:
        print("VIOLATION property=C17 replay=%s" % path)
    return 1 if bad else 0
