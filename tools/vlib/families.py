"""Scenario families for the L4 simulation level.  Every family is seeded from ctx.rng."""
from .scen import Scen

def _topology(rng, s, n_peers, players, delays=(0, 0, 1, 2, 3), nodrain=0):
    """distributes `players` handles over n_peers peers (1-2 local players each)"""
    per = [[] for _ in range(n_peers)]
    for h in range(players):
        per[h % n_peers].append(h)
    for i, loc in enumerate(per):
        s.p2p(i + 1, loc, delay=rng.choice(delays), nodrain=nodrain)
    return per

def _random_links(rng, s, ids, maxfaults=25, upto=300, kinds=("drop", "dup", "delay")):
    for a in ids:
        for b in ids:
            if a != b:
                faults = [(rng.randrange(5, upto), rng.choice(kinds), rng.choice([10, 50, 120]))
                          for _ in range(rng.randrange(0, maxfaults))]
                if faults:
                    s.link(a, b, faults=sorted(set(faults)))

def fam_c01(rng, n, tag="c01", duration=5000, windows=(1, 2, 3, 8, 8, 12), expect=("nodisconnect",), desyncs=(0, 0, 1, 3, 7)):
    """C01's space: 2-4 peers, 1-2 local players each, delays, windows >= 1, sparse on/off, both
    predictors, tick interleavings and relative speeds, per-packet loss/dup/delay/reorder."""
    out = []
    for i in range(n):
        n_peers = rng.choice([2, 2, 3, 4])
        players = n_peers * rng.choice([1, 1, 2]) if n_peers <= 3 else 4
        players = min(players, 4) if n_peers == 4 else players
        s = Scen("%s_%d" % (tag, i), players=players, window=rng.choice(windows), lat=rng.choice([0, 5, 20, 40, 90]),
                 seed=rng.randrange(1 << 30), sparse=rng.randrange(2), pred=rng.choice(["repeat", "default"]),
                 inputrun=rng.choice([1, 2, 5, 20]), desync=rng.choice(desyncs), expect=list(expect))
        _topology(rng, s, n_peers, players)
        ids = list(range(1, n_peers + 1))
        _random_links(rng, s, ids)
        for p in ids:
            a = rng.randrange(500, max(600, duration - 900))
            s.ticks(p, rng.randrange(0, 16), duration, rng.choice([16, 16, 17, 20, 33]), skip=[(a, a + rng.choice([0, 100, 400, 900]))])
        out.append(s)
    return out

def fam_edge(rng, n, tag="edge"):
    """sessions that live at the edge of the prediction window: the one-way latency is about
    `window` frames, inputs change every frame (so most predictions are wrong), small windows,
    dense and sparse saving; stalls at the threshold alternate with shallow rollbacks"""
    out = []
    for i in range(n):
        w = rng.choice([1, 2, 2, 3, 3, 4])
        n_peers = rng.choice([2, 2, 3])
        s = Scen("%s_%d" % (tag, i), players=n_peers, window=w, lat=max(0, 16 * w + rng.choice([-12, -4, 0, 6, 14, 30])),
                 seed=rng.randrange(1 << 30), sparse=rng.choice([0, 0, 1]), pred=rng.choice(["repeat", "default"]),
                 inputrun=rng.choice([1, 1, 2]), expect=["nodisconnect"])
        _topology(rng, s, n_peers, n_peers, delays=(0, 0, 1))
        ids = list(range(1, n_peers + 1))
        if rng.random() < 0.5:
            _random_links(rng, s, ids, maxfaults=12, upto=250, kinds=("delay", "drop"))
        for p in ids:
            a = rng.randrange(600, 2500)
            s.ticks(p, rng.randrange(0, 16), 4000, rng.choice([16, 16, 17]), skip=[(a, a + rng.choice([0, 40, 120]))])
        out.append(s)
    return out

def fam_long(rng, n, tag="long", duration=45000, nodrain=0):
    """thousands of frames: wraps the 128-slot input ring, the 60-slot spectator ring and the
    saved-state ring many times"""
    out = []
    for i in range(n):
        n_peers = rng.choice([1, 2, 2, 3])
        players = max(n_peers, rng.choice([n_peers, 2 * n_peers])) if n_peers > 1 else rng.choice([1, 2])
        players = min(players, 4)
        s = Scen("%s_%d" % (tag, i), players=players, window=rng.choice([2, 8, 12]), lat=rng.choice([5, 30, 60]),
                 seed=rng.randrange(1 << 30), sparse=rng.randrange(2), pred=rng.choice(["repeat", "default"]),
                 inputrun=rng.choice([2, 7]), desync=rng.choice([0, 1, 5]), expect=["nodisconnect"])
        _topology(rng, s, n_peers, players, nodrain=nodrain)
        ids = list(range(1, n_peers + 1))
        if n_peers > 1 and rng.random() < 0.7:
            s.spec(9, 1, players, catchup=rng.choice([1, 2, 3]), maxbehind=rng.choice([5, 10]))
            s.ticks(9, 4, duration, 16)
        _random_links(rng, s, ids, maxfaults=60, upto=6000)
        for p in ids:
            s.ticks(p, rng.randrange(0, 16), duration, 16)
        out.append(s)
    return out

def fam_checksum_reorder(rng, n, tag="csr", duration=16000):
    """C18: desync detection with sparse saving (the two peers report checksums of different frames, so received
    reports are not consumed by the comparison and the per-endpoint map of pending remote checksums sits at its
    cap) on a network that reorders single packets all through the run: a stale report arriving at a full map
    must not stop the trimming"""
    out = []
    for i in range(n):
        n_peers = rng.choice([2, 2, 3])
        s = Scen("%s_%d" % (tag, i), players=n_peers, window=rng.choice([8, 12]), lat=rng.choice([5, 30]),
                 seed=rng.randrange(1 << 30), sparse=1, pred=rng.choice(["repeat", "default"]),
                 inputrun=rng.choice([2, 7]), desync=rng.choice([1, 1, 2]), expect=["nodisconnect"])
        _topology(rng, s, n_peers, n_peers, delays=(0, 1, 3))
        ids = list(range(1, n_peers + 1))
        for a in ids:
            for b in ids:
                if a != b:
                    faults = sorted(set((rng.randrange(100, 3000), "delay", rng.choice([70, 250, 500, 900])) for _ in range(rng.randrange(20, 60))))
                    s.link(a, b, faults=faults)
        for p in ids:
            s.ticks(p, rng.randrange(0, 16), duration, 16)
        out.append(s)
    return out

def fam_starve(rng, n, tag="starve"):
    """one peer receives nothing from another for a long time (timeout raised so that nobody is
    disconnected); windows 0..=12"""
    out = []
    for i in range(n):
        w = rng.choice(list(range(0, 13)))
        n_peers = rng.choice([2, 2, 3])
        s = Scen("%s_%d" % (tag, i), players=n_peers, window=w, lat=rng.choice([5, 25]), seed=rng.randrange(1 << 30),
                 sparse=rng.randrange(2), pred=rng.choice(["repeat", "default"]), timeout=60000, notify=30000,
                 inputrun=rng.choice([1, 3]), expect=["nodisconnect"])
        _topology(rng, s, n_peers, n_peers)
        a = rng.randrange(300, 1500)
        b = a + rng.choice([500, 2000, 6000])
        victim = rng.randrange(1, n_peers + 1)
        src = rng.choice([x for x in range(1, n_peers + 1) if x != victim])
        s.link(src, victim, outages=[(a, b)])
        for p in range(1, n_peers + 1):
            s.ticks(p, rng.randrange(0, 16), b + 2500, 16)
        s.at(b + 600, "mark")
        for p in range(1, n_peers + 1):
            s.at(b + 2490, "progress", p, 15 if w > 0 else 3)
        out.append(s)
    return out

def fam_faults(rng, n, tag="faults", exhaustive_k=0, exhaustive_m=0):
    """C05: transient faults that end before the timeout, then a quiet tail in which every session
    must advance again.  Includes host->spectator links and windows 0 and 1."""
    out = []
    idx = 0
    def base(w, spect, delay, tagx):
        nonlocal idx
        s = Scen("%s_%s%d" % (tag, tagx, idx), players=2, window=w, lat=rng.choice([5, 15]), seed=rng.randrange(1 << 30),
                 sparse=rng.randrange(2) if w > 0 else 0, inputrun=3, expect=["nodisconnect"])
        idx += 1
        s.p2p(1, [0], delay=delay); s.p2p(2, [1], delay=rng.choice([0, 1]))
        if spect:
            s.spec(9, 1, 2, catchup=rng.choice([1, 2]), maxbehind=rng.choice([3, 10]))
        return s
    def finish(s, spect, fault_end):
        end = fault_end + 3500
        for p, o in ((1, 0), (2, 5)):
            s.ticks(p, o, end, 16)
        if spect:
            s.ticks(9, 9, end, 16)
        s.at(fault_end + 1200, "mark")
        for p in (1, 2) + ((9,) if spect else ()):
            s.at(end - 5, "progress", p, 15 if s.cfg["window"] > 0 else 3)
        out.append(s)
    # bounded-exhaustive placement of up to k faults on the first m packets of one direction
    if exhaustive_k:
        import itertools
        kinds = ["drop", "dup", "delay"]
        for w in (0, 1, 8):
            for (a, b) in ((1, 2), (9, 1), (1, 9)):
                spect = 9 in (a, b)
                for k in range(1, exhaustive_k + 1):
                    for pos in itertools.combinations(range(exhaustive_m), k):
                        variants = [[kd] for kd in kinds] if k == 1 else [[kinds[(p + j) % 3] for j, p in enumerate(pos)]]
                        for kv in variants:
                            s = base(w, spect, 0, "x")
                            s.link(a, b, faults=[(p + 12, kv[j], 60) for j, p in enumerate(pos)])
                            finish(s, spect, 600)
    for i in range(n):
        w = rng.choice([0, 1, 2, 8])
        spect = rng.random() < 0.6
        s = base(w, spect, rng.choice([0, 1, 2, 3]), "r")
        ids = [1, 2] + ([9] if spect else [])
        t0 = rng.randrange(400, 1500)
        kind = rng.randrange(3)
        if kind == 0:     # burst outage in one or both directions, shorter than the timeout
            dur = rng.choice([100, 300, 700, 1200, 1700])
            a, b = rng.sample(ids, 2)
            if set((a, b)) == {2, 9}:
                a, b = 9, 1
            s.link(a, b, outages=[(t0, t0 + dur)])
            if rng.random() < 0.5:
                s.link(b, a, outages=[(t0 + rng.choice([0, 50]), t0 + dur)])
            fend = t0 + dur
        elif kind == 1:   # a run of lost acknowledgements / inputs on one direction
            a, b = rng.choice([(9, 1), (1, 9), (1, 2), (2, 1)]) if spect else rng.choice([(1, 2), (2, 1)])
            start = rng.randrange(20, 80)
            # the spectator only answers the host's input packets (>= 60 per second), so even 70 of its
            # packets are gone in about a second; other directions can be down to 10 packets per second
            cnt = rng.choice([1, 2, 4, 10, 40, 70]) if (a, b) == (9, 1) else rng.choice([1, 2, 4, 8])
            s.link(a, b, faults=[(j, "drop", 0) for j in range(start, start + cnt)])
            fend = 2200
        else:             # scattered faults
            _random_links(rng, s, ids if spect else [1, 2], maxfaults=30, upto=120)
            fend = 2500
        finish(s, spect, fend)
    return out

def fam_spectator(rng, n, tag="spec"):
    out = []
    for i in range(n):
        n_peers = rng.choice([2, 2, 3])
        players = n_peers * rng.choice([1, 2]) if n_peers == 2 else 3
        s = Scen("%s_%d" % (tag, i), players=players, window=rng.choice([0, 1, 3, 8]), lat=rng.choice([5, 20, 50]),
                 seed=rng.randrange(1 << 30), sparse=rng.randrange(2), pred=rng.choice(["repeat", "default"]),
                 inputrun=rng.choice([1, 3, 9]), expect=["nodisconnect"], timeout=8000, notify=3000)
        if s.cfg["window"] == 0:
            s.cfg["sparse"] = 0
        _topology(rng, s, n_peers, players)
        nspec = rng.choice([1, 1, 2])
        dur = 7000
        for k in range(nspec):
            host = rng.randrange(1, n_peers + 1)
            sid = 9 + k
            s.spec(sid, host, players + k, catchup=rng.choice([1, 2, 3, 5]), maxbehind=rng.choice([1, 4, 10, 30]))
            a = rng.randrange(800, 3000)
            pause = rng.choice([0, 200, 700, 1200, 1500])      # long pauses: up to > 60 frames (beyond 128 frames the host drops a silent spectator by design)
            s.ticks(sid, 3 + k, dur, rng.choice([16, 16, 20, 33]), skip=[(a, a + pause)])
            if rng.random() < 0.5:
                s.link(host, sid, faults=[(rng.randrange(10, 300), rng.choice(["drop", "dup", "delay"]), 80) for _ in range(rng.randrange(1, 30))])
            if rng.random() < 0.3:
                s.link(sid, host, faults=[(rng.randrange(10, 300), "drop", 0) for _ in range(rng.randrange(1, 6))])
        _random_links(rng, s, list(range(1, n_peers + 1)), maxfaults=10)
        for p in range(1, n_peers + 1):
            s.ticks(p, rng.randrange(0, 16), dur, 16)
        out.append(s)
    return out

def fam_spectator_reorder_at_drop(rng, n, tag="srd"):
    """C06: the host drops its remote player (disconnect_player, or the player dies and is timed out) while the
    host->spectator link reorders packets all through that period, and the spectator is caught up (small
    max_frames_behind): an input packet sent before the drop and handled after one sent after it must not make the
    spectator forget that the player is disconnected"""
    out = []
    for i in range(n):
        to = rng.choice([600, 1000])
        s = Scen("%s_%d" % (tag, i), players=2, window=rng.choice([2, 8]), lat=rng.choice([5, 10]), seed=rng.randrange(1 << 30),
                 sparse=rng.randrange(2), pred=rng.choice(["repeat", "default"]), inputrun=rng.choice([1, 3]),
                 timeout=to, notify=rng.choice([200, 500]))
        s.p2p(1, [0]); s.p2p(2, [1])
        s.spec(9, 1, 2, catchup=rng.choice([1, 2, 3]), maxbehind=rng.choice([1, 1, 2]))
        t_drop = rng.randrange(900, 1800)
        how = rng.choice(["disc", "kill"])
        end = t_drop + to + 1500
        s.link(1, 9, faults=sorted(set((j, "delay", rng.choice([25, 40, 70])) for j in range(20, 260) if rng.random() < 0.3)))
        s.ticks(1, 0, end, 16)
        s.ticks(9, 5, end, 16)
        if how == "kill":
            s.ticks(2, 3, t_drop, 16)
            s.at(t_drop, "kill", 2)
        else:
            s.ticks(2, 3, end, 16)
            s.at(t_drop, "disc", 1, 1)
        out.append(s)
    return out

def fam_death(rng, n, tag="death", three=False):
    """a peer dies (stops sending) at some moment with some of its input still in flight; the
    survivors must notice on time and keep a coherent timeline"""
    out = []
    for i in range(n):
        n_peers = 3 if three else 2
        per = rng.choice([1, 1, 2]) if not three else 1
        players = n_peers * per
        w = rng.choice([1, 2, 4, 8]) if three else rng.choice([0, 1, 2, 4, 8])
        s = Scen("%s_%d" % (tag, i), players=players, window=w, lat=rng.choice([5, 20, 45]), seed=rng.randrange(1 << 30),
                 sparse=(rng.randrange(2) if w > 0 else 0), pred=rng.choice(["repeat", "default"]), inputrun=rng.choice([1, 3]),
                 timeout=rng.choice([600, 1000, 2000]), notify=rng.choice([200, 500]))
        _topology(rng, s, n_peers, players)
        spect = (not three) and rng.random() < 0.4
        if spect:
            s.spec(9, 1, players, catchup=2, maxbehind=5)
        victim = n_peers
        t_die = rng.randrange(400, 2500)
        # uneven delivery of the victim's last packets
        if three and rng.random() < 0.8:
            s.link(victim, rng.choice([1, 2]), outages=[(t_die - rng.choice([20, 40, 80, 150]), 10**9)])
        end = t_die + s.cfg["timeout"] + 2500
        for p in range(1, n_peers + 1):
            s.ticks(p, rng.randrange(0, 16), end if p != victim else t_die, rng.choice([16, 16, 20]))
        if spect:
            s.ticks(9, 7, end, 16)
        how = rng.random()
        if (not three) and rng.random() < 0.35:
            # the survivor's simulation pauses around the moment of death: it only polls (picking up the
            # victim's last inputs without simulating), the drop is registered - by disconnect_player or by
            # the timeout - and only then it advances again
            lat = s.cfg["lat"]
            pause = (t_die - rng.choice([40, 100, 200]), t_die + s.cfg["timeout"] + rng.choice([100, 400]))
            s.events = [e for e in s.events if not (e[2] == "tick 1" and pause[0] <= e[0] < pause[1])]
            for tp in range(pause[0], pause[1], rng.choice([30, 50, 100])):
                s.at(tp, "poll", 1)
            if rng.random() < 0.6:
                for h in range(players):
                    if h % n_peers == victim - 1:
                        s.at(t_die + lat + rng.choice([20, 60, 150]), "disc", 1, h)
                        break
            s.at(t_die, "kill", victim)
            out.append(s)
            continue
        if how < 0.7:
            s.at(t_die, "kill", victim)
        else:
            s.at(t_die, "kill", victim)
            for h in range(players):
                if h % n_peers == victim - 1:
                    s.at(t_die + rng.choice([50, 300]), "disc", 1, h)
                    break
        out.append(s)
    return out

def fam_death_starve(rng, n, tag="dstarve"):
    """3-4 peers; any one of them (not only the highest handle) dies cleanly - every survivor holds
    the same input of it - and is dropped by timeout; afterwards one survivor is starved of another
    survivor's input for longer than the window (but shorter than the timeout), then the link heals.
    The survivors must keep gating on every still-connected player."""
    out = []
    for i in range(n):
        n_peers = rng.choice([3, 3, 4])
        w = rng.choice([0, 1, 2, 4, 8])
        to = rng.choice([1000, 2000])
        s = Scen("%s_%d" % (tag, i), players=n_peers, window=w, lat=rng.choice([5, 20]), seed=rng.randrange(1 << 30),
                 sparse=(rng.randrange(2) if w > 0 else 0), pred=rng.choice(["repeat", "default"]), inputrun=rng.choice([1, 3]),
                 timeout=to, notify=rng.choice([200, 500]))
        _topology(rng, s, n_peers, n_peers, delays=(0, 0, 1))
        victim = rng.randrange(1, n_peers + 1)
        surv = [p for p in range(1, n_peers + 1) if p != victim]
        t_die = rng.randrange(500, 1500)
        t_out = t_die + to + rng.choice([400, 700])
        d_out = rng.choice([(w + 3) * 16, (w + 8) * 16, 600])
        d_out = min(d_out, to - 300)
        dst = rng.choice(surv)
        src = rng.choice([p for p in surv if p != dst])
        s.link(src, dst, outages=[(t_out, t_out + d_out)])
        end = t_out + d_out + 2500
        for p in range(1, n_peers + 1):
            s.ticks(p, rng.randrange(0, 16), end if p != victim else t_die, 16)
        s.at(t_die, "kill", victim)
        for p in surv:
            s.at(end - 10, "progress", p, 15 if w > 0 else 3)
        s.at(t_out + d_out + 600, "mark")
        out.append(s)
    return out

def fam_disc_live(rng, n, tag="dlive"):
    """disconnect_player on a peer that is alive: its packets keep arriving for as long as the endpoint
    still decodes them.  The caller runs ahead of what it holds of that player (latency) and keeps
    re-simulating (sparse saving) - what it handed out at or below confirmed_frame() must stay as it was.
    Two peers only: with a third one the survivors' views of the dropped player differ, which is the
    recorded finding of C10 (survivor_view_gap>=1), not what this family is after."""
    out = []
    for i in range(n):
        w = rng.choice([4, 8, 12])
        lat = rng.choice([20, 45, 80])
        s = Scen("%s_%d" % (tag, i), players=2, window=w, lat=lat, seed=rng.randrange(1 << 30),
                 sparse=1, pred=rng.choice(["repeat", "default"]), inputrun=1, timeout=5000, notify=2000)
        _topology(rng, s, 2, 2, delays=(0, 0, 1))
        t_disc = 12 * lat + rng.randrange(500, 1500)          # well after the handshake
        end = t_disc + rng.choice([800, 1500, 2500])
        for p in (1, 2):
            s.ticks(p, rng.randrange(0, 16), end, 16)
        s.at(t_disc, "disc", 1, 1)
        out.append(s)
    return out

def fam_late_packet(rng, n, tag="late"):
    """three peers; C stops simulating (it only polls), so A and B come to hold exactly the same input of it;
    A drops C with disconnect_player, B learns of the drop from A's gossip; only then C produces one or two
    more frames, whose packets reach B (the C->A direction is down): a packet from a player already marked
    dropped must not move B's cut-off away from A's"""
    out = []
    for i in range(n):
        w = rng.choice([8, 12])
        lat = rng.choice([5, 10, 20])
        s = Scen("%s_%d" % (tag, i), players=3, window=w, lat=lat, seed=rng.randrange(1 << 30),
                 sparse=rng.randrange(2), pred=rng.choice(["repeat", "default"]), inputrun=rng.choice([1, 3]),
                 timeout=5000, notify=2000)
        _topology(rng, s, 3, 3, delays=(0, 0, 1))
        t_stop = 12 * lat + rng.randrange(600, 1500)
        t_disc = t_stop + 3 * lat + rng.choice([30, 50, 70])
        t_late = t_disc + 3 * lat + rng.choice([30, 60, 100])
        end = t_late + rng.choice([800, 1500])
        s.link(3, 1, outages=[(t_stop + 1, 10**9)])
        for p in (1, 2):
            s.ticks(p, rng.randrange(0, 16), end, 16)
        s.ticks(3, rng.randrange(0, 16), t_stop, 16)
        for tp in range(t_stop, t_late, 16):
            s.at(tp, "poll", 3)
        for k in range(rng.choice([1, 2, 3])):
            s.at(t_late + 16 * k, "tick", 3)
        for tp in range(t_late + 64, t_late + 400, 16):
            s.at(tp, "poll", 3)
        s.at(t_disc, "disc", 1, 2)
        out.append(s)
    return out

def fam_two_drops_gossip(rng, n, tag="tdg", expect=("repeat",)):
    """four peers; peer 2 stops simulating (it only polls, so the others hold the same inputs of it) and is dropped
    by all three with disconnect_player; later peer 4 stops the same way and only peer 3 drops it: peer 1 has one
    endpoint that is no longer running and learns of the second drop from the connection status on peer 3's input
    packets - what it does with that must not depend on where the dead endpoint sits in its endpoint map"""
    out = []
    for i in range(n):
        w = rng.choice([8, 12])
        lat = rng.choice([5, 10, 20])
        s = Scen("%s_%d" % (tag, i), players=4, window=w, lat=lat, seed=rng.randrange(1 << 30),
                 sparse=rng.randrange(2), pred=rng.choice(["repeat", "default"]), inputrun=rng.choice([1, 3]),
                 timeout=20000, notify=8000, expect=list(expect))
        _topology(rng, s, 4, 4, delays=(0, 0, 1))
        t_stop1 = 12 * lat + rng.randrange(600, 1200)
        t_disc1 = t_stop1 + 3 * lat + rng.choice([30, 50, 70])
        t_stop2 = t_disc1 + rng.randrange(300, 900)
        t_disc2 = t_stop2 + 3 * lat + rng.choice([30, 50, 70])
        end = t_disc2 + rng.choice([800, 1500])
        for p in (1, 3):
            s.ticks(p, rng.randrange(0, 16), end, 16)
        s.ticks(2, rng.randrange(0, 16), t_stop1, 16)
        s.ticks(4, rng.randrange(0, 16), t_stop2, 16)
        for tp in range(t_stop1, end, 16):
            s.at(tp, "poll", 2)
        for tp in range(t_stop2, end, 16):
            s.at(tp, "poll", 4)
        for p in (1, 3, 4):
            s.at(t_disc1, "disc", p, 1)
        s.at(t_disc2, "disc", 3, 3)
        out.append(s)
    return out

def fam_third_party_views(rng, n, tag="tpv", expect=("repeat",)):
    """C17: four peers; peer 4 dies; peer 3 has seen fewer of its inputs than the others (the link 4->3 went down
    earlier); peer 2 drops it with disconnect_player before any timeout fires.  Peer 1 then holds, in the same call,
    two third-party reports about player 3: 'disconnected at frame a' from peer 2 and 'last frame b < a' from peer 3.
    What it makes of them must not depend on the order in which its endpoint map yields the two.
    (Survivors that hold different numbers of frames of a dropped player are the recorded finding of C10: what
    happens after the cut-off was chosen - including a panic - is that finding's business, so only the label C17
    counts for this family: the two runs of each scenario must be identical, whatever they do.)"""
    out = []
    for i in range(n):
        w = rng.choice([8, 12])
        lat = rng.choice([5, 10])
        s = Scen("%s_%d" % (tag, i), players=4, window=w, lat=lat, seed=rng.randrange(1 << 30),
                 sparse=rng.randrange(2), pred=rng.choice(["repeat", "default"]), inputrun=rng.choice([1, 3]),
                 timeout=20000, notify=8000, expect=list(expect))
        _topology(rng, s, 4, 4, delays=(0, 0, 1))
        t_die = 12 * lat + rng.randrange(600, 1200)
        gap = rng.choice([50, 80, 120])
        t_disc = t_die + 2 * lat + rng.choice([20, 40, 60])
        end = t_disc + rng.choice([300, 600])
        s.link(4, 3, outages=[(t_die - gap, 10**9)])
        for p in (1, 2, 3):
            s.ticks(p, rng.randrange(0, 16), end, 16)
        s.ticks(4, rng.randrange(0, 16), t_die, 16)
        s.at(t_die, "kill", 4)
        s.at(t_disc, "disc", 2, 3)
        out.append(s)
    return out

def fam_death_before_input(rng, n, tag="dbi"):
    """a peer completes the handshake (it polls) but never simulates a frame and then dies: the survivors have
    nothing of it (last frame NULL) and have predicted up to a window of frames; after the timeout - or an
    explicit disconnect_player - those frames must be re-simulated as (default, Disconnected)"""
    out = []
    for i in range(n):
        n_peers = rng.choice([2, 2, 3])
        w = rng.choice([1, 2, 4, 8])
        lat = rng.choice([5, 20, 45])
        to = rng.choice([600, 1000, 2000])
        s = Scen("%s_%d" % (tag, i), players=n_peers, window=w, lat=lat, seed=rng.randrange(1 << 30),
                 sparse=rng.randrange(2), pred=rng.choice(["repeat", "default"]), inputrun=rng.choice([1, 3]),
                 timeout=to, notify=rng.choice([200, 500]))
        _topology(rng, s, n_peers, n_peers, delays=(0, 0, 1))
        victim = rng.randrange(1, n_peers + 1)
        surv = [p for p in range(1, n_peers + 1) if p != victim]
        t_die = 12 * lat + rng.randrange(300, 900)
        end = t_die + to + 2500
        for p in surv:
            s.ticks(p, rng.randrange(0, 16), end, 16)
        s.ticks(victim, rng.randrange(0, 16), t_die, 16, kind="poll")
        s.at(t_die, "kill", victim)
        if rng.random() < 0.4:
            s.at(t_die + rng.choice([50, 200]), "disc", surv[0], victim - 1)
        for p in surv:
            s.at(end - 10, "progress", p, 15)
        out.append(s)
    return out

def fam_disc_two_players(rng, n, tag="d2p"):
    """two peers with two players each; one peer dies (or just falls silent) and the survivor drops it with an
    explicit disconnect_player(h) for ONE of its two handles: both players of that endpoint are dropped, the
    survivor keeps advancing and both end up (default, Disconnected) after their last received frame"""
    out = []
    for i in range(n):
        w = rng.choice([0, 1, 2, 4, 8])
        s = Scen("%s_%d" % (tag, i), players=4, window=w, lat=rng.choice([5, 20, 45]), seed=rng.randrange(1 << 30),
                 sparse=(rng.randrange(2) if w > 0 else 0), pred=rng.choice(["repeat", "default"]), inputrun=rng.choice([1, 3]),
                 timeout=rng.choice([3000, 5000]), notify=1000)
        _topology(rng, s, 2, 4, delays=(0, 0, 1))
        t_die = rng.randrange(500, 1500)
        t_disc = t_die + s.cfg["lat"] + rng.choice([20, 60, 150, 400])
        end = t_disc + 2500
        s.ticks(1, rng.randrange(0, 16), end, 16)
        s.ticks(2, rng.randrange(0, 16), t_die, 16)
        s.at(t_die, "kill", 2)
        s.at(t_disc, "disc", 1, rng.choice([1, 3]))
        s.at(t_disc + 200, "mark")
        s.at(end - 10, "progress", 1, 60, "C07")
        out.append(s)
    return out

def fam_death_long(rng, n, tag="dlong"):
    """2-3 peers with desync detection on; one dies cleanly and is dropped by timeout; the survivors keep
    playing for many seconds after the dead peer's endpoint has gone from Disconnected to Shutdown (5 s):
    whatever the session keeps producing for that endpoint (checksum reports, inputs, keep-alives) must not
    pile up anywhere"""
    out = []
    for i in range(n):
        n_peers = rng.choice([2, 3, 3])
        w = rng.choice([2, 4, 8])
        to = rng.choice([600, 1000])
        s = Scen("%s_%d" % (tag, i), players=n_peers, window=w, lat=rng.choice([5, 20]), seed=rng.randrange(1 << 30),
                 sparse=rng.randrange(2), pred=rng.choice(["repeat", "default"]), inputrun=rng.choice([1, 3]),
                 timeout=to, notify=rng.choice([200, 500]), desync=rng.choice([1, 2, 5]))
        _topology(rng, s, n_peers, n_peers, delays=(0, 0, 1))
        victim = rng.randrange(1, n_peers + 1)
        surv = [p for p in range(1, n_peers + 1) if p != victim]
        t_die = rng.randrange(500, 1500)
        end = t_die + to + 5000 + rng.choice([2000, 6000])
        for p in range(1, n_peers + 1):
            s.ticks(p, rng.randrange(0, 16), end if p != victim else t_die, 16)
        s.at(t_die, "kill", victim)
        for p in surv:
            s.at(end - 10, "progress", p, 100)
        out.append(s)
    return out

def fam_double_death(rng, n, tag="dd", expect=()):
    """3-4 peers; two remote peers die within the same poll interval of the survivor while holding
    different numbers of frames (different input delays / tick phases): the survivor must cut both off
    at their own last frames, whatever order the two Disconnected events are handled in"""
    out = []
    for i in range(n):
        n_peers = rng.choice([3, 3, 4])
        w = rng.choice([2, 4, 8, 12])
        to = rng.choice([600, 1000])
        s = Scen("%s_%d" % (tag, i), players=n_peers, window=w, lat=rng.choice([5, 20]), seed=rng.randrange(1 << 30),
                 sparse=rng.randrange(2), pred=rng.choice(["repeat", "default"]), inputrun=1, timeout=to, notify=rng.choice([200, 500]),
                 expect=list(expect))
        delays = [0, rng.choice([0, 1, 2, 3]), rng.choice([0, 2, 4]), 0][:n_peers]
        for k in range(n_peers):
            s.p2p(k + 1, [k], delay=delays[k])
        v1, v2 = 2, 3
        t_die = rng.randrange(500, 1500)
        dt = rng.choice([0, 0, 3, 8, 15])
        end = t_die + to + 2000
        for p in range(1, n_peers + 1):
            stop = end if p not in (v1, v2) else (t_die if p == v1 else t_die + dt)
            s.ticks(p, rng.randrange(0, 16), stop, 16)
        s.at(t_die, "kill", v1); s.at(t_die + dt, "kill", v2)
        out.append(s)
    return out

def fam_delay(rng, n, tag="delay", expect=("nodisconnect",)):
    """C11: set_input_delay at arbitrary moments, values 0..=6, several local players with
    different delays, decrease-then-increase, changes while stalled, spectators attached"""
    out = []
    for i in range(n):
        n_peers = rng.choice([2, 2, 3])
        per = rng.choice([1, 2]) if n_peers == 2 else 1
        players = n_peers * per
        s = Scen("%s_%d" % (tag, i), players=players, window=rng.choice([0, 2, 8]), lat=rng.choice([5, 30]), seed=rng.randrange(1 << 30),
                 sparse=0, pred=rng.choice(["repeat", "default"]), inputrun=rng.choice([1, 2]), expect=list(expect))
        per_l = _topology(rng, s, n_peers, players, delays=(0, 1, 3))
        if rng.random() < 0.5:
            s.spec(9, 1, players, catchup=2, maxbehind=5)
            s.ticks(9, 6, 6000, 16)
        stall = None
        if rng.random() < 0.4:
            a = rng.randrange(800, 2500)
            stall = (a, a + rng.choice([300, 900]))
            s.link(2, 1, outages=[stall])
        for p in range(1, n_peers + 1):
            s.ticks(p, rng.randrange(0, 16), 6000, 16)
        for _ in range(rng.randrange(1, 7)):
            p = rng.randrange(1, n_peers + 1)
            h = rng.choice(per_l[p - 1])
            t = rng.randrange(300, 4000) if not stall or rng.random() < 0.5 else rng.randrange(stall[0], stall[1])
            s.at(t, "delay", p, h, rng.randrange(0, 7))
            if rng.random() < 0.5:      # a second change right away or a few frames later
                s.at(t + rng.choice([0, 1, 17, 40, 100]), "delay", p, h, rng.randrange(0, 7))
        s.at(4300, "mark")
        for p in range(1, n_peers + 1):
            s.at(5990, "progress", p, 15 if s.cfg["window"] > 0 else 3)
        out.append(s)
    return out

def fam_handshake(rng, n, tag="hs"):
    """C12: loss/dup/reorder/stray replies during the handshake, poll cadences, silence periods
    around the notify delay and the timeout, sessions that never drain their events"""
    out = []
    for i in range(n):
        nod = 1 if rng.random() < 0.25 else 0
        s = Scen("%s_%d" % (tag, i), players=2, window=rng.choice([0, 2, 8]), lat=rng.choice([5, 30, 70]), seed=rng.randrange(1 << 30),
                 timeout=rng.choice([1000, 2000]), notify=rng.choice([300, 500]), inputrun=2)
        s.p2p(1, [0], nodrain=nod); s.p2p(2, [1])
        spect = rng.random() < 0.4
        if spect:
            s.spec(9, 1, 2)
        for (a, b) in ((1, 2), (2, 1)) + (((1, 9), (9, 1)) if spect else ()):
            fl = [(j, rng.choice(["drop", "dup", "delay"]), rng.choice([30, 250, 600])) for j in range(0, 40) if rng.random() < 0.35]
            s.link(a, b, faults=fl)
        # stray / duplicated / foreign handshake replies
        for _ in range(rng.randrange(0, 6)):
            s.at(rng.randrange(0, 1500), "inject", 2, 1, "syncreply", rng.choice([1, 2, 7]), rng.randrange(1 << 30))
        cadence = rng.choice([5, 16, 16, 50, 100])
        t_sil = rng.randrange(2500, 4000)
        sil = rng.choice([0, 250, 480, 520, 900, 1100, 1900, 2100])
        s.link(2, 1, outages=[(t_sil, t_sil + sil)]) if sil and rng.random() < 0.5 else None
        end = 8000
        s.ticks(1, 0, end, cadence, kind=rng.choice(["tick", "tick", "poll"]) if False else "tick")
        s.ticks(2, 3, end, 16, skip=[(t_sil, t_sil + sil)] if sil else [])
        if spect:
            s.ticks(9, 5, end, 16)
        out.append(s)
    return out

def fam_handshake_outage(rng, n, tag="hso"):
    """C05: the network is down (both directions) from the moment the sessions are built, for anything from a
    fraction of the notify delay to twice the disconnect timeout, or one side starts polling that late: the
    handshake must complete once packets flow, and a connection that has only just become Running must not be
    reported interrupted or disconnected on the strength of the time the handshake took"""
    out = []
    for i in range(n):
        spect = rng.random() < 0.4
        s = Scen("%s_%d" % (tag, i), players=2, window=rng.choice([0, 1, 8]), lat=rng.choice([5, 20, 45]), seed=rng.randrange(1 << 30),
                 inputrun=2, expect=["nodisconnect", "nointerrupt"])
        s.p2p(1, [0]); s.p2p(2, [1])
        if spect:
            s.spec(9, 1, 2)
        T = rng.choice([300, 700, 1600, 1900, 2100, 2600, 4200])
        late = rng.random() < 0.4
        if not late:
            for (a, b) in ((1, 2), (2, 1)) + (((1, 9), (9, 1)) if spect else ()):
                s.link(a, b, outages=[(0, T)])
        end = T + 4000
        s.ticks(1, 0, end, 16)
        s.ticks(2, T if late else 3, end, 16)
        if spect:
            s.ticks(9, T + 5 if late else 5, end, 16)
        # lockstep / window 1 advance one frame per round trip: a modest floor, the point is "not wedged"
        s.at(T + 1500, "mark")
        s.at(end - 10, "progress", 1, 10, "C05")
        s.at(end - 10, "progress", 2, 10, "C05")
        out.append(s)
    return out

def fam_late_joiner_after_drop(rng, n, tag="ljd"):
    """C12: three peers; peer 2 completes its handshake with peer 1 and then dies - peer 1 times it out, or drops it
    with disconnect_player right away - BEFORE peer 3 has started its own handshake: once peer 3 has completed it
    with peer 1, every remote of peer 1 is past the handshake and peer 1 must be Running (monitor
    running-iff-all-synchronized).  Peer 3 never gets past its own handshake (peer 2 is gone), so it simulates
    nothing: a third peer that runs with a different view of the dropped player is the recorded finding of C10
    (survivor_view_gap>=1), not what this family is after."""
    out = []
    for i in range(n):
        to = rng.choice([600, 1000, 2000])
        s = Scen("%s_%d" % (tag, i), players=3, window=rng.choice([2, 8]), lat=rng.choice([5, 20]), seed=rng.randrange(1 << 30),
                 timeout=to, notify=rng.choice([200, 500]), inputrun=2)
        for k in range(3):
            s.p2p(k + 1, [k])
        t_leave = rng.randrange(500, 900)
        how = rng.choice(["timeout", "disc"])
        t0 = t_leave + (to + rng.choice([300, 800]) if how == "timeout" else rng.choice([200, 600]))
        end = t0 + 3000
        s.ticks(1, 0, end, 16)
        s.ticks(2, 3, t_leave, 16)
        s.ticks(3, t0, end, 16)
        s.at(t_leave, "kill", 2)
        if how == "disc":
            s.at(t_leave + 20, "disc", 1, 1)
        out.append(s)
    return out

def fam_handshake_late(rng, n, tag="hsl", expect=("repeat",)):
    """one peer starts polling one to three seconds after the other: the early peer's sync requests (one
    every 200 ms, each with a fresh nonce) pile up unanswered, are then answered all at once, and some of the
    answers are lost.  Which answers count must not depend on anything but the packets: run twice, the per-address
    event sequences and the moment the session starts running must be the same"""
    out = []
    for i in range(n):
        s = Scen("%s_%d" % (tag, i), players=2, window=rng.choice([2, 8]), lat=rng.choice([5, 20]), seed=rng.randrange(1 << 30),
                 timeout=5000, notify=3000, inputrun=2, expect=list(expect))
        s.p2p(1, [0]); s.p2p(2, [1])
        t0 = rng.choice([1300, 1500, 1900, 2300, 2900])
        drops = [(j, "drop", 0) for j in range(0, 16) if rng.random() < rng.choice([0.3, 0.5, 0.7])]
        s.link(2, 1, faults=drops)
        if rng.random() < 0.5:
            s.link(1, 2, faults=[(j, "delay", rng.choice([50, 300])) for j in range(0, 16) if rng.random() < 0.3])
        end = t0 + 5000
        s.ticks(1, 0, end, 16)
        s.ticks(2, t0, end, 16)
        out.append(s)
    return out

def fam_poll_only(rng, n, tag="pollonly"):
    """two connected sessions that merely poll, default timeouts, poll periods up to 100 ms: never an interruption"""
    out = []
    for i in range(n):
        s = Scen("%s_%d" % (tag, i), players=2, window=8, lat=rng.choice([0, 10, 50, 100]), seed=rng.randrange(1 << 30), expect=["nodisconnect", "nointerrupt"])
        s.p2p(1, [0]); s.p2p(2, [1])
        p1, p2 = rng.choice([5, 16, 50, 100]), rng.choice([5, 16, 50, 100])
        s.ticks(1, 0, 12000, p1, kind="poll"); s.ticks(2, 7, 12000, p2, kind="poll")
        out.append(s)
    return out

def fam_desync(rng, n, tag="desync", diverge=False):
    out = []
    for i in range(n):
        interval = rng.choice(list(range(1, 13)))
        n_peers = 2
        s = Scen("%s_%d" % (tag, i), players=2, window=rng.choice([2, 4, 8]), lat=rng.choice([5, 25, 60]), seed=rng.randrange(1 << 30),
                 sparse=0 if diverge else rng.randrange(2), pred=rng.choice(["repeat", "default"]), inputrun=rng.choice([1, 2, 6]),
                 desync=interval, expect=["nodisconnect"])
        _topology(rng, s, n_peers, 2)
        if not diverge:
            _random_links(rng, s, [1, 2], maxfaults=30)
        else:
            _random_links(rng, s, [1, 2], maxfaults=6, kinds=("dup", "delay"))
        dur = 7000 if diverge else 5000
        for p in (1, 2):
            a = rng.randrange(500, 3000)
            s.ticks(p, rng.randrange(0, 16), dur, 16, skip=[(a, a + rng.choice([0, 200, 600]))] if not diverge else [])
        if diverge:
            s.at(1, "diverge", 2, rng.randrange(3, 150))
        out.append(s)
    return out

def fam_inject(rng, n, tag="inj"):
    """C08: malformed / foreign packets injected into a running two-peer session; returns pairs
    (clean, dirty) whose player observables must be identical"""
    out = []
    kinds = [
        lambda r: ("input", r.choice([1, 2, 3]), r.choice([0, 1, 3, 5]), r.randrange(0, 200), -1, r.choice(["80", "ffffffffffffffffffff01", "8180808004", "0401", "-", "fdff03", "%02x%02x" % (r.randrange(256), r.randrange(256))])),
        lambda r: ("input", 1, 2, -5, -1, "0401"),
        lambda r: ("input", r.choice([1, 5]), 2, r.choice([0, 0, 3, 50]), -1, "02040502030d"),   # well-formed payload, foreign magic
        # malformed packets under the peer's OWN magic (magic 0 is substituted by the harness): wrong status
        # count, negative start frame, garbage payload, frames of the wrong size, wrong-size frames at the end
        # of the i32 frame range
        lambda r: ("input", 0, r.choice([0, 1, 3, 7]), r.randrange(0, 300), -1, "02040502030d"),
        lambda r: ("input", 0, 2, -r.randrange(1, 1 << 30), -1, "02040502030d"),
        # ... the same carrying an acknowledgement the peer never sent (a rejected packet must not act as an ack:
        # what it would discard from pending_output is needed again when a genuine packet is lost)
        lambda r: ("input", 0, r.choice([0, 1, 3, 7]), r.randrange(0, 300), r.choice([100000, r.randrange(0, 400)]), "02040502030d"),
        lambda r: ("input", 0, 2, -r.randrange(1, 1 << 30), r.choice([100000, r.randrange(0, 400)]), "02040502030d"),
        # negative start frame WITH the disconnect flag (the flag exempts from the status-count check only)
        lambda r: ("inputdr", 0, r.choice([0, 2, 3]), -r.randrange(1, 1 << 30), r.choice([-1, 100000, r.randrange(0, 400)]), "02040502030d"),
        lambda r: ("input", 0, 2, r.randrange(0, 300), -1, r.choice(["80", "ffffffffffffffffffff01", "8180808004", "ff", "7f7f7f"])),
        lambda r: ("input", 0, 2, r.randrange(0, 300), -1, r.choice(["020305080707070311", "020205040607"])),
        lambda r: ("input", 0, 2, 2147483647, -1, "020305080707070311"),
        lambda r: ("input", 1, 2, r.randrange(0, 100), -1, "".join("%02x" % r.randrange(256) for _ in range(r.randrange(1, 9)))),
        lambda r: ("syncreply", r.choice([1, 2, 3]), r.randrange(1 << 30)),
        lambda r: ("keepalive", 1234),
        lambda r: ("ack", 4321, r.randrange(0, 500)),
        lambda r: ("checksum", 999, r.randrange(0, 300)),
    ]
    for i in range(n):
        seed = rng.randrange(1 << 30)
        def mk(dirty):
            s = Scen("%s_%d%s" % (tag, i, "d" if dirty else "c"), players=2, window=8, lat=10, seed=seed, inputrun=2, expect=["nodisconnect"])
            s.p2p(1, [0]); s.p2p(2, [1])
            for p, o in ((1, 0), (2, 5)):
                s.ticks(p, o, 4000, 16)
            return s
        c, d = mk(False), mk(True)
        r2 = __import__("random").Random(seed)
        for _ in range(r2.randrange(3, 25)):
            t = r2.randrange(0, 3900)
            frm = r2.choice([2, 2, 7])           # the real peer's address (foreign magic) or an unknown address
            args = r2.choice(kinds)(r2)
            d.at(t, "inject", frm, 1, *args)
        out.append((c, d))
    return out

def fam_inject_loss(rng, n, tag="injl"):
    """C08: malformed packets under the peer's own magic that carry an acknowledgement the peer never sent, into a
    session whose genuine packets are being lost: a rejected packet must not act as an ack - what it would discard
    from pending_output is needed for the retransmission.  (No clean/dirty pair here: extra traffic legitimately
    shifts retransmission timing under loss; the oracle is that the session keeps advancing after the losses and
    that the confirmed timelines stay true.)"""
    out = []
    for i in range(n):
        s = Scen("%s_%d" % (tag, i), players=2, window=8, lat=10, seed=rng.randrange(1 << 30), inputrun=2, expect=["nodisconnect"])
        s.p2p(1, [0]); s.p2p(2, [1])
        starts = sorted(rng.sample(range(300, 3000, 50), rng.randrange(3, 9)))
        outs = [(a, a + rng.choice([40, 80, 150])) for a in starts]
        s.link(1, 2, outages=outs)
        for p, o in ((1, 0), (2, 5)):
            s.ticks(p, o, 5000, 16)
        for (a, b) in outs:
            # forged packets "from 2" arrive at 1 while 1's own packets are being lost
            for t in range(a, b + 60, 20):
                kind = rng.random()
                if kind < 0.5:
                    s.at(t, "inject", 2, 1, "input", 0, rng.choice([0, 1, 3, 7]), rng.randrange(0, 300), rng.choice([100000, rng.randrange(0, 400)]), "02040502030d")
                else:
                    s.at(t, "inject", 2, 1, "input", 0, 2, -rng.randrange(1, 1 << 30), rng.choice([100000, rng.randrange(0, 400)]), "02040502030d")
        s.at(3300, "mark")
        s.at(4990, "progress", 1, 60, "C08")
        s.at(4990, "progress", 2, 60, "C08")
        out.append(s)
    return out

def fam_inject_silent(rng, n, tag="injs"):
    """C08: the genuine peer falls silent (dies) while foreign-magic / unknown-sender packets keep
    arriving from its address: the silence must be noticed exactly as in the clean run (same
    NetworkInterrupted / Disconnected events, same frames).  Returns pairs (clean, dirty)."""
    out = []
    kinds = [
        lambda r: ("input", r.choice([1, 2, 3]), 2, r.randrange(0, 200), -1, r.choice(["0401", "02040502030d", "-", "80"])),
        lambda r: ("keepalive", 1234),
        lambda r: ("ack", 4321, r.randrange(0, 500)),
        lambda r: ("checksum", 999, r.randrange(0, 300)),
        lambda r: ("syncreply", r.choice([1, 2, 3]), r.randrange(1 << 30)),
    ]
    for i in range(n):
        seed = rng.randrange(1 << 30)
        r2 = __import__("random").Random(seed)
        to = r2.choice([600, 1000, 2000]); no = r2.choice([200, 500])
        w = r2.choice([0, 2, 8])
        t_die = r2.randrange(400, 1500)
        end = t_die + to + 1500
        def mk(dirty):
            s = Scen("%s_%d%s" % (tag, i, "d" if dirty else "c"), players=2, window=w, lat=10, seed=seed, inputrun=2, timeout=to, notify=no)
            s.p2p(1, [0]); s.p2p(2, [1])
            s.ticks(1, 0, end, 16); s.ticks(2, 5, t_die, 16)
            s.at(t_die, "kill", 2)
            return s
        c, d = mk(False), mk(True)
        t = t_die + r2.randrange(0, 100)
        step = r2.choice([40, 90, 150])
        while t < end:
            d.at(t, "inject", 2, 1, *r2.choice(kinds)(r2))
            t += step
        out.append((c, d))
    return out

def fam_misuse(rng, n, tag="mis"):
    out = []
    kinds = ["input-nonlocal", "input-unknown", "disc-local", "disc-unknown", "delay-remote", "delay-unknown", "stats-local", "stats-unknown"]
    for i in range(n):
        seed = rng.randrange(1 << 30)
        w = rng.choice([0, 2, 8])
        def mk(dirty):
            s = Scen("%s_%d%s" % (tag, i, "d" if dirty else "c"), players=3, window=w, lat=10, seed=seed, inputrun=2, expect=["nodisconnect"])
            s.p2p(1, [0, 2]); s.p2p(2, [1])
            for p, o in ((1, 0), (2, 5)):
                s.ticks(p, o, 3000, 16)
            return s
        c, d = mk(False), mk(True)
        r2 = __import__("random").Random(seed)
        for _ in range(r2.randrange(2, 12)):
            d.at(r2.randrange(0, 2900), "misuse", 1, r2.choice(kinds))
        out.append((c, d))
    return out

def fam_misuse_disc_again(rng, n, tag="misd"):
    """C16: disconnect_player on an already disconnected player - the very handle, or another handle at the same
    address (disconnect_player drops every player of that endpoint) - must return InvalidRequest and change nothing:
    twin runs, both with the same genuine disconnect_player call, one with the repeated calls inserted"""
    out = []
    for i in range(n):
        seed = rng.randrange(1 << 30)
        w = rng.choice([2, 8])
        t_disc = rng.randrange(600, 1500)
        def mk(dirty):
            s = Scen("%s_%d%s" % (tag, i, "d" if dirty else "c"), players=3, window=w, lat=10, seed=seed, inputrun=2)
            s.p2p(1, [0]); s.p2p(2, [1, 2])
            for p, o in ((1, 0), (2, 5)):
                s.ticks(p, o, 3000, 16)
            s.at(t_disc, "disc", 1, 1)
            return s
        c, d = mk(False), mk(True)
        r2 = __import__("random").Random(seed)
        for _ in range(r2.randrange(2, 8)):
            d.at(r2.randrange(t_disc + 1, 2900), "misuse", 1, "disc-again:%d" % r2.choice([1, 2]))
        out.append((c, d))
    return out

def fam_lead(rng, n, tag="lead"):
    """C15 gate: one peer ticks faster for a while so that frames_ahead() grows"""
    out = []
    for i in range(n):
        s = Scen("%s_%d" % (tag, i), players=2, window=rng.choice([8, 12]), lat=rng.choice([0, 20, 50, 100]), seed=rng.randrange(1 << 30), fps=rng.choice([30, 60, 120]), expect=["nodisconnect"])
        s.p2p(1, [0]); s.p2p(2, [1])
        fast = rng.choice([10, 12, 14])
        s.ticks(1, 0, 9000, fast); s.ticks(2, 3, 9000, 16)
        out.append(s)
    return out

def fam_lead_wave(rng, n, tag="wave"):
    """C15 gate: one peer alternates between ticking faster and slower than the other, so that its lead
    (and the 30-frame average behind frames_ahead()) rises above the recommendation threshold, is held, and
    falls again - with phase lengths varied so that the steps of the average land on every alignment with
    the 60-frame recommendation interval.  Every WaitRecommendation must carry the frames_ahead() the
    caller reads right after the call that raised it."""
    out = []
    for i in range(n):
        lat = rng.choice([0, 10, 20, 50])
        s = Scen("%s_%d" % (tag, i), players=2, window=rng.choice([8, 12]), lat=lat, seed=rng.randrange(1 << 30),
                 fps=rng.choice([50, 60]), inputrun=rng.choice([1, 3]), expect=["nodisconnect"])
        s.p2p(1, [0]); s.p2p(2, [1])
        t = 0
        end = 12000
        s.ticks(2, 3, end, 16)
        while t < end:
            fast = rng.choice([10, 12, 13, 14])
            d1 = rng.randrange(300, 1600)
            s.ticks(1, t, min(end, t + d1), fast); t += d1
            slow = rng.choice([18, 20, 22, 26, 32])
            d2 = rng.randrange(200, 1400)
            s.ticks(1, t, min(end, t + d2), slow); t += d2
            if rng.random() < 0.5:
                d3 = rng.randrange(100, 900)
                s.ticks(1, t, min(end, t + d3), 16); t += d3
        out.append(s)
    return out

def fam_ping(rng, n, tag="ping"):
    """C15: clean symmetric links with every one-way latency 0..=100 ms (boundaries of the 200 ms
    quality-report period included), fps 30/60/120, some with a slow handshake (loss of the first
    sync packets); every tick checks network_stats(): numbers only once a quality reply arrived,
    ping within [2*lat, 2*lat + polling slack]"""
    out = []
    lats = list(range(0, 101, 5)) + [1, 2, 47, 93, 96, 97, 98, 99, 100]
    for i in range(n):
        lat = lats[i % len(lats)] if i < 2 * len(lats) else rng.randrange(0, 101)
        fps = rng.choice([30, 60, 120])
        period = {30: 33, 60: 16, 120: 8}[fps]
        s = Scen("%s_%d" % (tag, i), players=2, window=8, lat=lat, seed=rng.randrange(1 << 30), fps=fps, inputrun=3,
                 expect=["nodisconnect", "ping%d" % (2 * period + 2)])
        s.p2p(1, [0]); s.p2p(2, [1])
        if rng.random() < 0.4:     # slow handshake: the first sync packets of one direction are lost
            s.link(1, 2, faults=[(k, "drop", 0) for k in range(rng.randrange(2, 7))])
        o2 = rng.randrange(0, period)
        s.ticks(1, 0, 5000, period); s.ticks(2, o2, 5000, period)
        out.append(s)
    return out

def fam_spec_pairs(rng, n, tag="nospec"):
    """C06 non-interference: the same session with and without spectators attached"""
    out = []
    for i in range(n):
        seed = rng.randrange(1 << 30)
        w = rng.choice([0, 1, 3, 8]); sp = rng.randrange(2) if w else 0
        lat = rng.choice([20, 50]); d1, d2 = rng.choice([0, 1, 2]), rng.choice([0, 1, 2])
        r2seed = rng.randrange(1 << 30)
        def mk(with_spec):
            r2 = __import__("random").Random(r2seed)
            second = r2.random() < 0.5
            skips = [(a, a + r2.choice([0, 200, 600])) for a in (r2.randrange(500, 3000), r2.randrange(500, 3000))]
            s = Scen("%s_%d%s" % (tag, i, "d" if with_spec else "c"), players=2, window=w, lat=lat, seed=seed, sparse=sp, inputrun=2, expect=["nodisconnect"])
            s.p2p(1, [0], delay=d1); s.p2p(2, [1], delay=d2)
            for k, (p, o) in enumerate(((1, 0), (2, 5))):
                s.ticks(p, o, 4000, 16, skip=[skips[k]])
            if with_spec:
                # the spectators' handshakes must not be what delays the start: zero-latency links and
                # fast polling until the players are running (timing is part of the schedule, and the
                # claim is about what is simulated, not about when the session starts)
                s.spec(9, 1, 2, catchup=2, maxbehind=5); s.ticks(9, 1, 700, 3); s.ticks(9, 704, 4000, 16)
                s.link(1, 9, lat=0); s.link(9, 1, lat=0)
                if second:
                    s.spec(10, 2, 3); s.ticks(10, 2, 700, 3); s.ticks(10, 706, 4000, 20)
                    s.link(2, 10, lat=0); s.link(10, 2, lat=0)
            return s
        out.append((mk(False), mk(True)))
    return out

def fam_all_local(rng, n, tag="local"):
    out = []
    for i in range(n):
        players = rng.choice([1, 2, 3, 4])
        s = Scen("%s_%d" % (tag, i), players=players, window=rng.choice([0, 1, 2, 8]), seed=rng.randrange(1 << 30), sparse=rng.randrange(2), desync=rng.choice([0, 1, 10]), inputrun=2)
        if s.cfg["window"] == 0:
            s.cfg["sparse"] = 0
        s.p2p(1, list(range(players)), delay=rng.choice([0, 2, 5]), nodrain=rng.randrange(2))
        s.ticks(1, 0, rng.choice([3000, 20000]), 16)
        out.append(s)
    return out

def fam_silent_spectator(rng, n, tag="silent"):
    """a spectator that stops acknowledging (it is killed): the host must drop it, not buffer for it.
    The remote player ticks in bursts, so the host's confirmed frame jumps by several frames per call
    (the broadcast loop then calls send_input several times between two polls)."""
    out = []
    for i in range(n):
        s = Scen("%s_%d" % (tag, i), players=2, window=rng.choice([0, 2, 8, 12]), lat=10, seed=rng.randrange(1 << 30), inputrun=2, timeout=rng.choice([2000, 20000]), notify=500)
        s.p2p(1, [0], nodrain=rng.randrange(2)); s.p2p(2, [1]); s.spec(9, 1, 2)
        t_die = rng.randrange(500, 2000)
        s.ticks(1, 0, 9000, 16)
        burst = rng.choice([0, 100, 200])
        skips = [(a, a + burst) for a in range(300, 9000, 2 * burst)] if burst else []
        s.ticks(2, 5, 9000, rng.choice([8, 16]), skip=skips)
        s.ticks(9, 7, t_die, 16)
        s.at(t_die, "kill", 9)
        out.append(s)
    return out

def fam_silent_spectator_burst(rng, n, tag="silentb"):
    """a spectator that stops acknowledging while the host's confirmed frame only ever moves in jumps of several
    frames (the remote player sends in bursts and the host runs ahead inside its window): the call in which the
    128th unacknowledged frame is queued for the spectator queues several more - the spectator must be reported
    Disconnected once"""
    out = []
    for i in range(n):
        s = Scen("%s_%d" % (tag, i), players=2, window=rng.choice([8, 12]), lat=rng.choice([5, 10]), seed=rng.randrange(1 << 30), inputrun=2, timeout=20000, notify=5000)
        s.p2p(1, [0], nodrain=rng.randrange(2)); s.p2p(2, [1]); s.spec(9, 1, 2)
        t_die = rng.randrange(400, 1200)
        s.ticks(1, 0, 6000, 16)
        pause = rng.choice([60, 80, 100])
        gap = rng.choice([40, 60])
        skips = [(a, a + pause) for a in range(300 + rng.randrange(0, 50), 6000, pause + gap)]
        s.ticks(2, 5, 6000, 8, skip=skips)
        s.ticks(9, 7, t_die, 16)
        s.at(t_die, "kill", 9)
        out.append(s)
    return out

def fam_event_flood(rng, n, tag="flood"):
    """never-drained sessions that receive many events: diverging games with desync detection at a
    short interval (one DesyncDetected per report), a leading peer (WaitRecommendation), silences"""
    out = []
    for i in range(n):
        s = Scen("%s_%d" % (tag, i), players=2, window=rng.choice([2, 8]), lat=rng.choice([5, 20]), seed=rng.randrange(1 << 30), desync=rng.choice([1, 1, 2]), inputrun=2)
        s.p2p(1, [0], nodrain=1); s.p2p(2, [1], nodrain=rng.randrange(2))
        s.ticks(1, 0, 8000, rng.choice([12, 16])); s.ticks(2, 5, 8000, 16)
        s.at(1, "diverge", 2, rng.randrange(3, 40))
        out.append(s)
    return out

def fam_paused_spectator(rng, n, tag="pause"):
    """a spectator that pauses for about as long as the host buffers for it (128 frames) and then
    comes back: the host's Disconnected for it must be the last event for that address"""
    out = []
    for i in range(n):
        tick = rng.choice([16, 16, 20])
        s = Scen("%s_%d" % (tag, i), players=2, window=rng.choice([2, 8]), lat=rng.choice([5, 10, 30]), seed=rng.randrange(1 << 30), inputrun=2, timeout=rng.choice([5000, 20000]), notify=rng.choice([300, 500, 1500]))
        s.p2p(1, [0]); s.p2p(2, [1]); s.spec(9, 1, 2)
        s.ticks(1, 0, 7000, tick); s.ticks(2, 5, 7000, tick)
        t0 = rng.randrange(600, 2000)
        pause = 128 * tick + rng.randrange(-120, 200)
        s.ticks(9, 7, 7000, 16, skip=[(t0, t0 + pause)])
        out.append(s)
    return out

def fam_sparse_polls(rng, n, tag="gap"):
    """the remote falls silent and the local application itself stops polling for a while, so that a
    single poll may cross the notify delay, the timeout, or both at once"""
    out = []
    for i in range(n):
        timeout = rng.choice([800, 1000, 2000]); notify = rng.choice([200, 300, 500])
        s = Scen("%s_%d" % (tag, i), players=2, window=rng.choice([0, 2, 8]), lat=rng.choice([5, 20]), seed=rng.randrange(1 << 30),
                 timeout=timeout, notify=notify, inputrun=2)
        s.p2p(1, [0]); s.p2p(2, [1])
        if rng.random() < 0.4:
            s.spec(9, 1, 2); s.ticks(9, 7, 6000, 16)
        t_sil = rng.randrange(700, 2000)
        back = rng.random() < 0.4
        if back:
            s.link(2, 1, outages=[(t_sil, t_sil + rng.choice([notify + 50, timeout - 50, timeout + 300]))])
            s.ticks(2, 3, 8000, 16)
        else:
            s.ticks(2, 3, t_sil, 16); s.at(t_sil, "kill", 2)
        gap0 = t_sil + rng.choice([0, 50, notify - 20])
        gap = rng.choice([notify - 50, notify + 50, timeout - 50, timeout + 50, timeout + 500, 2 * timeout])
        s.ticks(1, 0, 8000, rng.choice([16, 16, 50]), skip=[(gap0, gap0 + gap)])
        out.append(s)
    return out
