"""C11 — changing input delay at run time keeps all peers in agreement."""
from . import families as F
from .simprops import generic_run, sizes, sim_replay
from .p_queue import run_queue_correspondence
from .p_session import run_session_correspondence
def both(ctx):
    run_queue_correspondence(ctx)
    run_session_correspondence(ctx)
LABELS = {"C11", "C01", "C03", "C05", "C06", "C18", "PANIC"}
def run(ctx):
    generic_run(ctx, LABELS, extra=both, plan=[("delay", lambda: F.fam_delay(ctx.rng, sizes(ctx, 150, 1500)))], needed_consts=["INPUT_QUEUE_LENGTH"])
def replay(ctx, path):
    return sim_replay(ctx, path, LABELS)
