"""C09 — desync detection raises no false alarm and catches real divergence."""
from . import families as F
from .simprops import generic_run, sizes, sim_replay
LABELS = {"C09", "PANIC"}
def run(ctx):
    generic_run(ctx, LABELS, [("desync", lambda: F.fam_desync(ctx.rng, sizes(ctx, 200, 2000))), ("diverge", lambda: F.fam_desync(ctx.rng, sizes(ctx, 120, 1000), tag="div", diverge=True)), ("c01d", lambda: F.fam_c01(ctx.rng, sizes(ctx, 100, 1000), tag="c09", desyncs=(1, 2, 5, 12)))])
def replay(ctx, path):
    return sim_replay(ctx, path, LABELS)
