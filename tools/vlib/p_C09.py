"""C09 — desync detection raises no false alarm and catches real divergence.

proof side      : coq/Desync.v (model of check_checksum_send_interval / compare_local_checksums_against_peers),
                  DesyncProofs.v, props/C09.v; premise from C01: SessionTimeline.confirmed_saved_states_are_replays
correspondence  : level `desync` - one real P2PSession (desync detection on) with puppet peers; at every
                  advance_frame the harness records what the detection read (last confirmed frame, saved cells:
                  hook accessor verif_desync) and what it did (report sent, DesyncDetected events, history,
                  pending maps); the extracted model is fed the same readings and reports and must agree
monitors        : level `desync`: honest reports (the checksum saved for a confirmed frame) never raise an event;
                  a wrong report for a frame in the local history is flagged by the next call that has confirmed
                  that frame.  L4 simulation: deterministic games never raise DesyncDetected; games that diverge
                  from a frame on are reported by both peers at or after that frame."""
import re
from . import families as F
from .simprops import generic_run, sizes, sim_replay
LABELS = {"C09", "PANIC"}

DS = re.compile(r" \| ds pre=L:(-?\d+);cells:(\S*) rep=(\S+) ev=(\S+) sent=(-?\d+) hist=(\S+) pend=(\S*)$")

def gen_scenario(rng, honest, bursty=False):
    """bursty: the remote inputs stall for a few calls and then arrive all at once, so that the last confirmed
    frame jumps past several frames whose local checksum is only recorded by later calls; the peer's reports
    for exactly those frames arrive in between"""
    w = rng.choice([4, 8] if bursty else [2, 4, 8]); sparse = 0 if bursty else rng.choice([0, 0, 1])
    interval = rng.choice([1, 1, 2] if bursty else [1, 2, 3, 5, 40]); neps = rng.choice([1, 1, 2])
    kinds = "L," + ",".join("R%d" % e for e in range(neps))
    lines = ["new players=%d window=%d sparse=%d pred=repeat delay=0 kinds=%s spectators=0 desync=%d" % (1 + neps, w, sparse, kinds, interval), "sync"]
    nextf = [0] * neps
    val = [rng.randrange(6) for _ in range(neps)]
    cur = 0
    stall = 0
    after_burst = 0
    for step in range(rng.randrange(40, 140)):
        burst = False
        if bursty and stall == 0 and cur > 3 and rng.random() < 0.25:
            stall = rng.randrange(2, w)
        if stall > 0:
            stall -= 1
            burst = stall == 0
        for e in range(neps):
            # remote inputs arrive in order, sometimes in bursts, sometimes lagging (stalls, rollbacks)
            if stall > 0:
                k = 0
            elif burst:
                k = max(0, cur + 1 - nextf[e])
            else:
                k = rng.choice([0, 1, 1, 1, 2, 3]) if nextf[e] <= cur + 1 else rng.choice([0, 0, 1])
            for _ in range(k):
                if rng.random() < (0.05 if bursty else 0.4):
                    val[e] = rng.randrange(6)
                lines.append("rin %d %d %d" % (e, nextf[e], val[e])); nextf[e] += 1
        conf = min(nextf) - 1
        if after_burst > 0 and conf >= 2:
            # the call(s) after the jump: reports for the frames the jump has confirmed.  An honest peer names
            # them relative to what the session itself has confirmed (those saved states are final)
            after_burst -= 1
            for _ in range(rng.choice([1, 2, 3])):
                e = rng.randrange(neps)
                if honest:
                    lines.append("report %d conf%d match" % (e, rng.randrange(0, w + 1)))
                else:
                    f = rng.randrange(max(0, conf - w), conf + 1)
                    lines.append("report %d %d %s" % (e, f, rng.choice(["match", str(f * 1000 + 7), str(rng.randrange(1, 50))])))
        elif rng.random() < 0.5:
            e = rng.randrange(neps)
            if honest:
                # an honest peer reports the checksum of a frame that is confirmed (on the interval grid or not):
                # `conf<k>` = k frames below the session's own last confirmed frame, `match` = the checksum saved
                lines.append("report %d conf%d match" % (e, rng.choice([0, 0, 1, 2, interval, 2 * interval, 3 * interval + 1])))
            else:
                f = rng.randrange(max(0, conf - 3 * interval - 2), max(1, conf + 3))
                lines.append("report %d %d %s" % (e, f, rng.choice(["match", "match", str(rng.randrange(1, 50)), str(f * 1000 + 1)])))
        lines.append("local 0 %d" % rng.randrange(4))
        lines.append("advance")
        if burst:
            after_burst = 2
        if stall == 0 or cur - (min(nextf) - 1) < w:
            cur += 1
    return {"lines": lines, "honest": honest, "interval": interval, "neps": neps}

def model_script(scen, out):
    """the model sees the reports (with the resolved checksum) and, per successful advance, what the session read"""
    ms, idx = [], []
    for i, (op, r) in enumerate(zip(scen["lines"], out)):
        t = op.split()
        if t[0] == "new":
            ms.append("new interval=%d eps=%d" % (scen["interval"], scen["neps"])); idx.append(i)
        elif t[0] == "report" and r.startswith("ok f="):
            f, cs = r[3:].split()
            ms.append("report %s %s %s" % (t[1], f[2:], cs[3:])); idx.append(i)
        elif t[0] == "advance":
            m = DS.search(r)
            if m:
                ms.append("advance L=%s cells=%s" % (m.group(1), m.group(2))); idx.append(i)
    return ms, idx

def monitor(scen, out):
    """implementation-side: honest reports never raise an event; a wrong report for a frame is flagged once the
    local history holds that frame and the session has confirmed it - whether the report came before or after
    the local checksum was recorded (one further call is allowed, the comparison may run before the recording)"""
    hits = []
    hist = {}
    pend = {}     # (ep, frame) -> reported checksum, not yet settled as far as the monitor can tell
    late = {}     # (ep, frame) -> number of calls in which the report was comparable and no event came
    for op, r in zip(scen["lines"], out):
        t = op.split()
        if r.startswith("panic") or r == "dead":
            hits.append(("panic", "`%s` answered `%s`" % (op, r[:80]))); break
        if t[0] == "report" and r.startswith("ok f="):
            f, cs = int(r.split()[1][2:]), int(r.split()[2][3:])
            pend[(int(t[1]), f)] = cs; late.pop((int(t[1]), f), None)
        if t[0] == "advance":
            m = DS.search(r)
            if not m:
                continue
            L = int(m.group(1))
            evs = [] if m.group(4) == "-" else [tuple(int(x) for x in e.split("/")) for e in m.group(4).split(";")]
            if scen["honest"] and evs:
                hits.append(("false-alarm", "DesyncDetected %s although every report carried the checksum saved for a confirmed frame (%s)" % (evs, scen["lines"][0])))
                break
            hist = {} if m.group(6) == "-" else {int(x.split(":")[0]): int(x.split(":")[1]) for x in m.group(6).split(",")}
            for (ep, f), cs in list(pend.items()):
                if f not in hist:
                    late.pop((ep, f), None)
                    continue
                if L <= f:
                    continue
                if hist[f] == cs or (ep, f, hist[f], cs) in evs:
                    del pend[(ep, f)]; late.pop((ep, f), None)
                    continue
                late[(ep, f)] = late.get((ep, f), 0) + 1
                if late[(ep, f)] >= 2:
                    hits.append(("missed-desync", "endpoint %d reported %d for frame %d, the local history holds %d and the session has confirmed frame %d, yet two calls in a row raised no DesyncDetected for it (last: %s) (%s)" % (ep, cs, f, hist[f], L, evs, scen["lines"][0])))
                    break
            if hits:
                break
    return hits

def run_desync_level(ctx):
    rng = ctx.rng
    n = 400 if ctx.thorough else 60
    scens = [gen_scenario(rng, honest=(i % 2 == 0), bursty=(i % 4 >= 2)) for i in range(n)]
    script = [l for s in scens for l in s["lines"]]
    impl = ctx.run_impl("desync", script, "debug")
    st = ctx.cov["correspondence"].setdefault("desync/debug", {"ops": 0, "disagreements": 0, "skipped_for_model": 0})
    mon = ctx.cov["monitors"].setdefault("desync_level", {"scenarios": 0, "advances": 0, "reports_sent": 0, "events": 0, "honest": 0})
    i = 0
    mscript, mexpect = [], []
    for s in scens:
        out = impl[i:i + len(s["lines"])]; i += len(s["lines"])
        mon["scenarios"] += 1; mon["honest"] += s["honest"]
        ms, idx = model_script(s, out)
        for line, k in zip(ms, idx):
            mscript.append(line)
            r = out[k]
            m = DS.search(r)
            if line.startswith("advance") and m:
                mon["advances"] += 1; mon["reports_sent"] += m.group(3) != "-"; mon["events"] += m.group(4) != "-"
                mexpect.append("rep=%s ev=%s sent=%s hist=%s pend=%s" % (m.group(3), m.group(4), m.group(5), m.group(6), m.group(7)))
            else:
                mexpect.append("ok")
        for cls, what in monitor(s, out)[:1]:
            ctx.hit(cls, what, {"level": "desync", "scenario": s})
        ctx.count(sample={"cfg": s["lines"][0], "last": out[-1][-160:]} if mon["scenarios"] % 37 == 1 else None,
                  nontrivial_key=("desync", s["lines"][0], len(s["lines"])))
    model = ctx.run_model("desync", mscript, "debug")
    for op, a, b in zip(mscript, mexpect, model):
        st["ops"] += 1
        if a != b:
            st["disagreements"] += 1
            if len(ctx.corr_failures) < 50:
                ctx.corr_failures.append({"what": "correspondence desync/debug", "op": op[:200], "impl": a[:200], "model": b[:200]})
    ctx.cov["traces_validated_against_impl"] += len(mscript)

def run(ctx):
    generic_run(ctx, LABELS, extra=run_desync_level, plan=[("desync", lambda: F.fam_desync(ctx.rng, sizes(ctx, 200, 2000))), ("diverge", lambda: F.fam_desync(ctx.rng, sizes(ctx, 120, 1000), tag="div", diverge=True)), ("c01d", lambda: F.fam_c01(ctx.rng, sizes(ctx, 100, 1000), tag="c09", desyncs=(1, 2, 5, 12)))])

def replay(ctx, path):
    import json
    body = json.load(open(path))
    bad = 0
    rest = []
    for h in body.get("failing_inputs", []):
        rp = h.get("replay", {})
        if rp.get("level") == "desync":
            ctx.needed_consts = []; ctx.consts = {}
            ctx.build_harness(("debug",))
            out = ctx.run_impl("desync", rp["scenario"]["lines"], "debug")
            hs = monitor(rp["scenario"], out)
            print("replay desync scenario (%d ops) -> %s" % (len(out), hs[0][1] if hs else "property holds"))
            bad += bool(hs)
        else:
            rest.append(h)
    if rest or not body.get("failing_inputs"):
        rc = sim_replay(ctx, path, LABELS)
        return 1 if (rc or bad) else 0
    if bad:
        print("VIOLATION property=C09 replay=%s" % path)
    return 1 if bad else 0
