"""C07 — a peer drop is detected on time and the survivor's timeline stays coherent."""
from . import families as F
from .simprops import generic_run, sizes, sim_replay
from .p_session import run_session_correspondence
LABELS = {"C07", "C03", "C06", "PANIC"}
from .p_endpoint import run_endpoint_correspondence
def _extra(ctx):
    run_session_correspondence(ctx)
    run_endpoint_correspondence(ctx)
def run(ctx):
    generic_run(ctx, LABELS, extra=_extra, plan=[("double_death", lambda: F.fam_double_death(ctx.rng, sizes(ctx, 60, 600))), ("death_before_input", lambda: F.fam_death_before_input(ctx.rng, sizes(ctx, 60, 600))), ("disc_two_players", lambda: F.fam_disc_two_players(ctx.rng, sizes(ctx, 40, 400))), ("death2", lambda: F.fam_death(ctx.rng, sizes(ctx, 300, 3000))), ("handshake", lambda: F.fam_handshake(ctx.rng, sizes(ctx, 100, 800))), ("sparse_polls", lambda: F.fam_sparse_polls(ctx.rng, sizes(ctx, 120, 1000)))])
def replay(ctx, path):
    return sim_replay(ctx, path, LABELS)
