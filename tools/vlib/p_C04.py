"""C04 — speculation is bounded by the prediction window; lockstep never speculates.

Besides the session correspondence and the L4 families (starved peers, windows 0..=12), the lockstep helper
`advance_frame_with_wait_timeout` is driven on two real lockstep sessions (harness level `wait`): packets become
visible only after the receiver has polled a number of times, every poll advances the virtual clock by 1 ms, so the
awaited input can arrive in the middle of the wait; after every call: no AdvanceFrame returned => current_frame()
unchanged, at most one frame per call, only Confirmed inputs, no Save/Load, the game ends at current_frame()."""
import json
from . import families as F
from .simprops import generic_run, sizes, sim_replay
from .p_session import run_session_correspondence
LABELS = {"C04", "PANIC"}

def gen_wait_lines(rng, n):
    out = []
    for _ in range(n):
        fps = rng.choice([30, 60, 60, 120])
        out.append("wait seed=%d delay=%d fps=%d timeout=%d ticks=%d" % (
            rng.randrange(1 << 30), rng.choice([0, 0, 1, 2, 4]), fps, rng.choice([0, 1, 4, 1000 // fps, 1000 // fps, 40]), rng.choice([40, 80, 160])))
    return out

def run_wait_level(ctx):
    lines = gen_wait_lines(ctx.rng, 1500 if ctx.thorough else 150)
    res = ctx.run_impl("wait", lines, "debug")
    mon = ctx.cov["monitors"].setdefault("lockstep_wait", {"scenarios": 0, "frames": 0, "advancing_wait_calls": 0, "stalled_calls": 0})
    for line, r in zip(lines, res):
        mon["scenarios"] += 1
        if r.startswith("ok "):
            kv = dict(t.split("=") for t in r.split()[1:])
            a, b = kv["frames"].split("/")
            mon["frames"] += int(a) + int(b); mon["advancing_wait_calls"] += int(kv["waits_resolved"]); mon["stalled_calls"] += int(kv["stalls"])
            ctx.count(nontrivial_key=("wait", line) if int(a) + int(b) >= 10 else None)
        else:
            ctx.hit("lockstep-wait", "%s  (`%s`)" % (r[:300], line), {"level": "wait", "op": line})
    ctx.cov["traces_validated_against_impl"] += len(lines)

def extra(ctx):
    run_session_correspondence(ctx)
    run_wait_level(ctx)

def run(ctx):
    generic_run(ctx, LABELS, extra=extra, plan=[("dstarve", lambda: F.fam_death_starve(ctx.rng, sizes(ctx, 100, 1000))), ("starve", lambda: F.fam_starve(ctx.rng, sizes(ctx, 200, 2000))), ("c01w", lambda: F.fam_c01(ctx.rng, sizes(ctx, 200, 2000), tag="c04", windows=tuple(range(0, 13))))])

def replay(ctx, path):
    body = json.load(open(path))
    bad, rest = 0, []
    for h in body.get("failing_inputs", []):
        rp = h.get("replay", {})
        if rp.get("level") == "wait":
            ctx.needed_consts = []; ctx.consts = {}
            ctx.build_harness(("debug",))
            r = ctx.run_impl("wait", [rp["op"]], "debug")[0]
            print("replay `%s` -> %s" % (rp["op"], r[:200]))
            bad += not r.startswith("ok ")
        else:
            rest.append(h)
    if rest or not body.get("failing_inputs"):
        rc = sim_replay(ctx, path, LABELS)
        return 1 if (rc or bad) else 0
    if bad:
        print("VIOLATION property=C04 replay=%s" % path)
    return 1 if bad else 0
