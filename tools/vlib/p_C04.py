"""C04 — speculation is bounded by the prediction window; lockstep never speculates."""
from . import families as F
from .simprops import generic_run, sizes, sim_replay
from .p_session import run_session_correspondence
LABELS = {"C04", "PANIC"}
def run(ctx):
    generic_run(ctx, LABELS, extra=run_session_correspondence, plan=[("dstarve", lambda: F.fam_death_starve(ctx.rng, sizes(ctx, 100, 1000))), ("starve", lambda: F.fam_starve(ctx.rng, sizes(ctx, 200, 2000))), ("c01w", lambda: F.fam_c01(ctx.rng, sizes(ctx, 200, 2000), tag="c04", windows=tuple(range(0, 13))))])
def replay(ctx, path):
    return sim_replay(ctx, path, LABELS)
