"""C13 — SyncTestSession flags exactly the games that are not deterministic.

proof side : coq/SyncTest.v (model), SyncTestSpec.v (game semantics, request contract), SyncTestProofs.v,
             props/C13.v
correspondence : level `synctest` (harness/src/synctest.rs vs ocaml/lvl_synctest.ml), same scripts
monitors   : the property text checked on the real session's outputs only (no model involved):
             deterministic game => never mismatch / panic, request lists executable (C02 contract),
             all statuses Confirmed, inputs delayed as configured; one noisy frame F >= 2 with check
             distance >= 2 => MismatchedChecksum within check_distance+2 frames, naming F first."""
import json, re
from . import core

A_RE = re.compile(r"^A(-?\d+)\((.*)\)$")

# ---------------------------------------------------------------- scenario generation
def valid_cfg(np_, w, d):
    return np_ >= 1 and d < w

def gen_scenario(rng, np_, w, d, k, frames, noise=(), faults=True, tag="", once=0):
    """One session: `new`, then `frames` successful frames of sticky random inputs, with (if faults)
    missing inputs, invalid handles and overwritten inputs sprinkled in."""
    # ext=1: the game keeps its snapshots itself and saves (None, checksum) - legal use of the cell API
    ext = 1 if rng.random() < 0.4 else 0
    lines = ["new players=%d window=%d dist=%d delay=%d%s" % (np_, w, d, k, " ext=1" if ext else "")]
    meta = {"np": np_, "w": w, "d": d, "k": k, "noise": list(noise), "tag": tag, "once": once, "ext": ext}
    if not valid_cfg(np_, w, d):
        return {"lines": lines, "meta": meta}
    adv = "advance" + "".join((" noise@%d#%d" % (f, once)) if once else (" noise@%d" % f) for f in noise)
    val = [rng.randrange(6) for _ in range(np_)]
    for f in range(frames):
        for h in range(np_):
            if rng.random() < 0.3:
                val[h] = rng.choice([0, 1, 2, 3, 5, 4000000000, rng.randrange(1 << 32)])
        order = list(range(np_))
        rng.shuffle(order)
        if faults and rng.random() < 0.06:
            lines.append("local %d %d" % (np_ + rng.randrange(0, 3), rng.randrange(9)))     # invalid handle
        if faults and np_ >= 1 and rng.random() < 0.08:
            miss = rng.choice(order)                                                        # forget one player
            for h in order:
                if h != miss:
                    lines.append("local %d %d" % (h, val[h]))
            lines.append(adv)
            lines.append("local %d %d" % (miss, val[miss]))
        else:
            for h in order:
                if faults and rng.random() < 0.05:
                    lines.append("local %d %d" % (h, (val[h] + 1) % 7))                      # overwritten below
                lines.append("local %d %d" % (h, val[h]))
        lines.append(adv)
    return {"lines": lines, "meta": meta}

# ---------------------------------------------------------------- the monitor (implementation side)
def parse_req(line):
    """`req S0 A0(1:C,2:C) cur=1 h=0 !flag` -> (requests, cur, flags)"""
    toks = line.split()
    reqs, cur, flags = [], None, []
    for t in toks[1:]:
        if t.startswith("cur="):
            cur = int(t[4:])
        elif t.startswith("h="):
            pass
        elif t.startswith("!"):
            flags.append(t[1:])
        elif t[0] == "S":
            reqs.append(("S", int(t[1:])))
        elif t[0] == "L":
            reqs.append(("L", int(t[1:])))
        else:
            m = A_RE.match(t)
            ins = [(int(x.split(":")[0]), x.split(":")[1]) for x in m.group(2).split(",")] if m.group(2) else []
            reqs.append(("A", int(m.group(1)), ins))
    return reqs, cur, flags

def monitor(scen, out):
    """Checks the property text on the outputs `out` of the real session for scenario `scen`.
    Returns a list of (class, description); empty = the property held on this run."""
    meta, lines = scen["meta"], scen["lines"]
    np_, w, d, k, noise = meta["np"], meta["w"], meta["d"], meta["k"], meta["noise"]
    hits = []
    cfg = "players=%d window=%d dist=%d delay=%d" % (np_, w, d, k)
    if not valid_cfg(np_, w, d):
        if out[0] != "rejected":
            hits.append(("invalid-config-accepted", "the builder answered `%s` for the invalid synctest configuration %s" % (out[0], cfg)))
        return hits
    if out[0] != "ok":
        hits.append(("valid-config-refused", "the builder answered `%s` for the valid synctest configuration %s" % (out[0], cfg)))
        return hits
    pending = {}
    submitted = []          # per successful frame: the input vector
    gf = 0                  # the game's frame as implied by the executed requests
    cells = {}              # cell index -> frame saved in it
    first_mismatch = None
    once = meta.get("once", 0)
    saves_of_noisy = 0
    for op, r in zip(lines[1:], out[1:]):
        t = op.split()
        where = "%s, op `%s` at frame %d" % (cfg, op, len(submitted))
        if r in ("panic", "dead") or r.startswith(("crash", "noresult", "othererr", "badop")):
            if r != "dead":
                hits.append(("panic", "`%s` (%s)" % (r, where)))
            return hits
        if t[0] == "local":
            h, v = int(t[1]), int(t[2])
            if h >= np_:
                if r != "invalid":
                    hits.append(("api", "add_local_input for handle %d of %d players answered `%s` (%s)" % (h, np_, r, where)))
            else:
                if r != "ok":
                    hits.append(("api", "add_local_input answered `%s` (%s)" % (r, where)))
                pending[h] = v
            continue
        # advance
        if r.startswith("mismatch"):
            m = re.match(r"mismatch cur=(-?\d+) frames=([-\d,]*)", r)
            cur, frames = int(m.group(1)), [int(x) for x in m.group(2).split(",") if x]
            if not noise:
                hits.append(("false-alarm", "MismatchedChecksum(current_frame=%d, frames=%s) for a deterministic game (%s)" % (cur, frames, where)))
                return hits
            if first_mismatch is None:
                first_mismatch = (cur, frames)
            if not frames or frames[0] not in noise:
                hits.append(("wrong-frame-named", "MismatchedChecksum names %s first, the only nondeterministic save is that of frame %s (%s)" % (frames[:1], noise, where)))
                return hits
            continue
        if r.startswith("invalid"):
            if len(pending) == np_:
                hits.append(("api", "advance_frame answered InvalidRequest although all %d inputs were supplied (%s)" % (np_, where)))
            continue
        if not r.startswith("req "):
            hits.append(("panic", "unexpected answer `%s` (%s)" % (r, where)))
            return hits
        if len(pending) != np_:
            hits.append(("api", "advance_frame succeeded with inputs for only %s of %d players (%s)" % (sorted(pending), np_, where)))
            return hits
        submitted.append([pending[h] for h in range(np_)])
        pending = {}
        reqs, cur, flags = parse_req(r)
        before = gf
        for f in flags:
            hits.append(("contract", "the harness game reports `%s` while executing `%s` (%s)" % (f, r, where)))
        for q in reqs:
            if q[0] == "S":
                if q[1] != gf:
                    hits.append(("contract", "SaveGameState(%d) while the game is at frame %d (%s)" % (q[1], gf, where)))
                cells[q[1] % (w + 1)] = q[1]
                if noise and q[1] == noise[0]:
                    saves_of_noisy += 1
            elif q[0] == "L":
                f = q[1]
                if not (0 <= f < gf):
                    hits.append(("contract", "LoadGameState(%d) is not an earlier frame (game at %d) (%s)" % (f, gf, where)))
                elif gf - f > w:
                    hits.append(("contract", "LoadGameState(%d) is %d frames back, max_prediction is %d (%s)" % (f, gf - f, w, where)))
                if cells.get(f % (w + 1)) != f:
                    hits.append(("contract", "LoadGameState(%d): its cell holds frame %s (%s)" % (f, cells.get(f % (w + 1)), where)))
                gf = f
            else:
                f, ins = q[1], q[2]
                if f != gf:
                    hits.append(("contract", "harness game frame %d differs from the frame implied by the requests %d (%s)" % (f, gf, where)))
                if len(ins) != np_:
                    hits.append(("contract", "AdvanceFrame carries %d inputs for %d players (%s)" % (len(ins), np_, where)))
                if any(s != "C" for _, s in ins):
                    hits.append(("status", "AdvanceFrame for frame %d carries a status other than Confirmed: %s (%s)" % (gf, ins, where)))
                want = [submitted[gf - k][p] if gf - k >= 0 else 0 for p in range(np_)] if gf - k < len(submitted) else None
                if want is None or [v for v, _ in ins] != want:
                    hits.append(("inputs", "frame %d simulated with inputs %s, the inputs submitted at user frame %d (delay %d) are %s (%s)"
                                 % (gf, [v for v, _ in ins], gf - k, k, want, where)))
                gf += 1
        if gf != before + 1 or cur != gf:
            hits.append(("contract", "after the call the game is at frame %d, was at %d, current_frame() = %s (%s)" % (gf, before, cur, where)))
        if hits:
            return hits
    # detection obligation: one noisy frame F >= 2, check distance >= 2, enough frames played
    if len(noise) == 1 and noise[0] >= 2 and d >= 2:
        F = noise[0]
        if first_mismatch is None:
            # a call made at current_frame = c succeeded iff more than c frames were played;
            # single-glitch noise: the glitch must have happened and another save of F must exist
            if len(submitted) >= F + d + 3 and (once == 0 or saves_of_noisy >= max(once, 2)):
                hits.append(("missed-nondeterminism", "%s, check distance %d: no MismatchedChecksum in %d frames (%s)"
                             % (("only save #%d (of %d) of frame %d returns a different checksum" % (once, saves_of_noisy, F)) if once else
                                ("saves of frame %d return a different checksum every time" % F), d, len(submitted), cfg)))
        elif first_mismatch[0] > F + d + 2:
            hits.append(("late-detection", "noisy frame %d, check distance %d: first MismatchedChecksum at current_frame %d > %d (%s)" % (F, d, first_mismatch[0], F + d + 2, cfg)))
    return hits

# ---------------------------------------------------------------- run
def run_batch(ctx, scens, label, correspond=True, monitored=True):
    script = [l for s in scens for l in s["lines"]]
    if correspond:
        impl, _ = ctx.correspond("synctest", script, "debug", label=label)
    else:
        impl = ctx.run_impl("synctest", script)
    st = ctx.cov["monitors"].setdefault(label, {"scenarios": 0, "rejected": 0, "frames": 0, "mismatches": 0, "invalid": 0, "panics": 0, "detect_at": {}})
    i = 0
    for s in scens:
        out = impl[i:i + len(s["lines"])]
        i += len(s["lines"])
        st["scenarios"] += 1
        st["rejected"] += out[0] == "rejected"
        st["frames"] += sum(1 for r in out if r.startswith("req "))
        st["invalid"] += sum(1 for r in out if r.startswith("invalid"))
        st["panics"] += sum(1 for r in out if r == "panic")
        mm = [r for r in out if r.startswith("mismatch")]
        if mm:
            st["mismatches"] += 1
            m = s["meta"]
            if len(m["noise"]) == 1:
                cur = int(re.match(r"mismatch cur=(-?\d+)", mm[0]).group(1))
                key = "cur-F=%d" % (cur - m["noise"][0])
                st["detect_at"][key] = st["detect_at"].get(key, 0) + 1
        hs = monitor(s, out) if monitored else []
        m = s["meta"]
        ctx.count(sample={"cfg": s["lines"][0], "noise": m["noise"], "last": out[-1][:120]} if (st["scenarios"] % 97 == 1) else None,
                  nontrivial_key=(m["np"], m["w"], m["d"], m["k"], tuple(m["noise"]), m["tag"], m.get("once", 0)) if out[0] == "ok" else None)
        for cls, what in hs[:1]:
            ctx.hit(cls, what, {"level": "synctest", "scenario": s})
    return impl

def run(ctx):
    ctx.needed_consts = ["INPUT_QUEUE_LENGTH", "DEFAULT_PLAYERS", "DEFAULT_MAX_PREDICTION_FRAMES", "DEFAULT_CHECK_DISTANCE",
                         "DEFAULT_INPUT_DELAY", "NULL_FRAME"]
    ctx.proof_side()
    if not ctx.build_harness(("debug",)):
        return
    rng = ctx.rng
    dist = ctx.cov["input_distribution"]
    # ---- family 1: ALL configurations, deterministic game ----
    scens = []
    reps = 10 if ctx.thorough else 1
    for np_ in range(0, 5):
        for w in range(0, 10):
            for d in range(0, w + 1):
                for k in range(0, 5):
                    if np_ == 0 and (k > 0 or d > 1):
                        continue
                    for _ in range(reps if valid_cfg(np_, w, d) else 1):
                        scens.append(gen_scenario(rng, np_, w, d, k, rng.randrange(40, 61), tag="det"))
    dist["deterministic_all_configs(players0-4,window0-9,dist0-window,delay0-4)"] = len(scens)
    run_batch(ctx, scens, "deterministic")
    # a few long runs (the input ring wraps at 128) and large delays (up to the bound of the theorem)
    longs = []
    qlen = ctx.consts.get("INPUT_QUEUE_LENGTH", 128)
    for _ in range(80 if ctx.thorough else 6):
        w = rng.randrange(1, 10)
        d = rng.randrange(0, w)
        longs.append(gen_scenario(rng, rng.randrange(1, 4), w, d, rng.choice([0, 1, 7, 30, qlen - d - 2]), rng.randrange(280, 420), tag="long"))
    dist["deterministic_long_runs(280-420 frames, delays up to INPUT_QUEUE_LENGTH-dist-2)"] = len(longs)
    run_batch(ctx, longs, "deterministic_long")
    # delays beyond the bound of the theorem: the input queue overflows and advance_frame panics; model and
    # code must agree on when (correspondence only: the property is claimed within the bound)
    beyond = []
    for _ in range(12 if ctx.thorough else 4):
        w = rng.randrange(1, 10)
        d = rng.randrange(0, w)
        beyond.append(gen_scenario(rng, rng.randrange(1, 3), w, d, qlen - d - 2 + rng.choice([1, 1, 2, 5, 40]), 12, faults=False, tag="beyond"))
    dist["delay_beyond_bound(correspondence only)"] = len(beyond)
    run_batch(ctx, beyond, "delay_beyond_bound", monitored=False)
    # ---- family 2: one noisy frame ----
    noisy = []
    pairs = [(w, d) for w in range(1, 10) for d in range(0, w)]
    if ctx.thorough:
        for (w, d) in pairs:
            for F in range(0, 41):
                noisy.append(gen_scenario(rng, 2, w, d, rng.randrange(0, 5), F + d + 6, noise=(F,), faults=False, tag="noise"))
        for _ in range(12000):
            w, d = rng.choice(pairs)
            F = rng.randrange(0, 60)
            noisy.append(gen_scenario(rng, rng.randrange(1, 5), w, d, rng.randrange(0, 5), F + d + 8, noise=(F,), faults=True, tag="noise-faults"))
    else:
        for (w, d) in pairs:
            for F in sorted(set([0, 1, 2, 3, d - 1, d, d + 1, d + 2, w, w + 1, w + 2, rng.randrange(0, 41), rng.randrange(0, 41)])):
                if F >= 0:
                    noisy.append(gen_scenario(rng, 2, w, d, rng.randrange(0, 5), F + d + 6, noise=(F,), faults=False, tag="noise"))
        for _ in range(150):
            w, d = rng.choice(pairs)
            F = rng.randrange(0, 60)
            noisy.append(gen_scenario(rng, rng.randrange(1, 5), w, d, rng.randrange(0, 5), F + d + 8, noise=(F,), faults=True, tag="noise-faults"))
    dist["one_noisy_frame(players=2: %s; plus random players/faults)" % ("every F in 0..40 for every valid (window,dist)" if ctx.thorough else "boundary and sampled F for every valid (window,dist)")] = len(noisy)
    run_batch(ctx, noisy, "noisy_frame")
    # ---- family 3: a single glitch: only the k-th save of frame F differs (a game that forgets one piece of state
    # once); every placement k = 1..d+1 for every valid (window, dist), F sampled ----
    glitch = []
    for (w, d) in pairs:
        if d < 2:
            continue
        for kth in range(1, d + 2):
            for F in ([2, d + 3, rng.randrange(2, 30)] if not ctx.thorough else list(range(2, 24))):
                glitch.append(gen_scenario(rng, rng.choice([1, 2]), w, d, rng.randrange(0, 3), F + d + 8, noise=(F,), faults=False, tag="glitch", once=kth))
    dist["single_glitch(k-th save of F differs, every k in 1..dist+1 for every valid (window,dist>=2))"] = len(glitch)
    run_batch(ctx, glitch, "single_glitch")
    ctx.cov["rule"] = ("every builder configuration players 0..4 x window 0..9 x check distance 0..window x delay 0..4 (invalid ones must be rejected) "
                       "with a 40-60 frame run of sticky random u32 inputs, shuffled submission order, missing inputs, invalid handles and "
                       "overwritten inputs; long runs beyond the 128-slot input ring with delays up to the theorem's bound; one noisy frame F "
                       "(checksum changes on every save of F) for every valid (window, check distance) pair. "
                       "non-trivial = distinct (players, window, dist, delay, noisy frame, family) of accepted sessions")
    ctx.cov["exhaustive"] = False
    ctx.cov["exhaustive_note"] = "bounded: the configuration grid is complete for the stated ranges; input sequences and (quick tier) noisy frames are sampled; the Coq theorems cover all values"
    ctx.assumptions += [
        "the user executes every returned request list in order and saves with the checksum of its game (protocol stated in coq/SyncTest.v)",
        "the game state is modelled as the list of input vectors played on the current timeline; a deterministic game's checksum is a function of it",
        "0 <= delay and delay + check_distance + 2 <= INPUT_QUEUE_LENGTH (beyond that the first advance_frame calls panic in the input queue: C13_delay_bound_is_needed)",
        "HashMap iteration order of local_inputs modelled as ascending handle order (the per-player queues are independent)",
        "nondeterminism is modelled as a save of frame F whose checksum differs on every save; the saved state itself (and so later frames) is unaffected",
    ]

def replay(ctx, path):
    body = json.load(open(path))
    ctx.needed_consts = []
    ctx.consts = {}
    if not ctx.build_harness(("debug",)):
        return 1
    bad = 0
    for h in body.get("failing_inputs", []):
        scen = h["replay"]["scenario"]
        out = ctx.run_impl("synctest", scen["lines"])
        hs = monitor(scen, out)
        print("replay %s noise=%s (%d ops) -> %s" % (scen["lines"][0], scen["meta"]["noise"], len(scen["lines"]), hs[0][1] if hs else "property holds"))
        if hs:
            bad += 1
    for c in body.get("correspondence_disagreements", [])[:5]:
        print("recorded disagreement:", json.dumps(c)[:300])
    if bad:
        print("VIOLATION property=C13 replay=%s" % path)
    return 1 if bad else 0
