"""C06 — a spectator replays exactly the host's confirmed input sequence."""
from . import families as F
from .simprops import generic_run, sizes, sim_replay
from .p_spectator import run_spectator_correspondence
from .p_session import run_session_correspondence
def _extra(ctx):
    run_spectator_correspondence(ctx)
    run_session_correspondence(ctx)      # the host half is a theorem about the session-core model (ss=[..] = spectator sends)
LABELS = {"C06", "C02", "PANIC"}
def run(ctx):
    generic_run(ctx, LABELS, extra=_extra, plan=[("spectator", lambda: F.fam_spectator(ctx.rng, sizes(ctx, 200, 2000))), ("nospec_pairs", lambda: F.fam_spec_pairs(ctx.rng, sizes(ctx, 80, 600))), ("death2spec", lambda: F.fam_death(ctx.rng, sizes(ctx, 60, 400))), ("reorder_at_drop", lambda: F.fam_spectator_reorder_at_drop(ctx.rng, sizes(ctx, 150, 1000)))], pair_what="spectators attached", pair_fields=("req", "st", "frames"))
def replay(ctx, path):
    return sim_replay(ctx, path, LABELS)
