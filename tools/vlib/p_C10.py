"""C10 — surviving peers agree on the cut-off of a dropped player."""
from . import families as F
from .simprops import generic_run, sizes, sim_replay
from .p_session import run_session_correspondence
LABELS = {"C10", "C07", "C09", "C01", "C03", "PANIC"}
def classify(prop, cls, gap, scen):
    # the recorded finding: a survivor holds >= 1 frame more of the dropped player than another survivor
    return "survivor_view_gap>=1" if gap >= 1 else cls
def run(ctx):
    generic_run(ctx, LABELS, extra=run_session_correspondence, plan=[("death3", lambda: F.fam_death(ctx.rng, sizes(ctx, 300, 3000), tag="d3", three=True)), ("late_packet", lambda: F.fam_late_packet(ctx.rng, sizes(ctx, 60, 600)))], known_class=classify)
def replay(ctx, path):
    return sim_replay(ctx, path, LABELS)
