"""L1 correspondence: the InputQueue model (coq/Queue.v) against the real InputQueue."""
def gen_script(rng):
    ops = ["new " + rng.choice(["repeat", "default"])]
    uf = 0; req = 0
    for _ in range(rng.randrange(5, 400)):
        r = rng.random()
        if r < 0.45:
            f = uf if rng.random() < 0.97 else uf + rng.choice([-1, 1, 2])
            ops.append("add %d %d" % (f, rng.randrange(4)))
            if f == uf: uf += 1
        elif r < 0.7:
            f = req if rng.random() < 0.93 else rng.randrange(0, max(1, uf + 3))
            ops.append("input %d" % f)
            if f == req: req += 1
        elif r < 0.75: ops.append("fi")
        elif r < 0.82: ops.append("discard %d" % max(-1, req - rng.randrange(1, 12)))
        elif r < 0.88:
            ops.append("reset"); req = max(0, req - rng.randrange(0, 5))
        elif r < 0.93: ops.append("confirmed %d" % rng.randrange(0, max(1, uf)))
        else: ops.append("delay %d" % rng.randrange(0, 7))
    return ops

def run_queue_correspondence(ctx, n=None):
    n = n or (1500 if ctx.thorough else 200)
    script = []
    for _ in range(n):
        script += gen_script(ctx.rng)
    impl, model = ctx.correspond("queue", script, "debug", label="queue")
    kinds = {}
    for op, r in zip(script, impl):
        k = op.split()[0] + ":" + r.split()[0]
        kinds[k] = kinds.get(k, 0) + 1
    ctx.cov["input_distribution"]["queue_ops"] = kinds
