"""Level `spectator`: the SpectatorSession model (coq/Spectator.v) against one real SpectatorSession
driven by a puppet host that speaks the wire protocol (harness/src/spectator.rs), plus an
implementation-side monitor that checks the C06 text directly on the real session's outputs."""
import re

def value(p, f):
    return 10 * f + p + 1

class Gen:
    """One session script.  Tracks only what it needs to aim at the interesting corners."""
    def __init__(self, rng, players=None, maxbehind=None, catchup=None):
        self.rng = rng
        self.players = players or rng.choice([1, 2, 2, 3, 4])
        self.maxbehind = maxbehind or rng.choice([1, 2, 5, 10, 10, 30, 58, 59, rng.randrange(1, 60)])
        self.catchup = catchup or rng.choice([1, 1, 2, 3, 5, 10, 58, 59, 60, 61, 70, rng.randrange(1, 71)])
        self.lines = ["new players=%d maxbehind=%d catchup=%d" % (self.players, self.maxbehind, self.catchup)]
        self.next = 0          # next unsent frame
        self.cur = -1          # estimate of the spectator's current frame (exact while the host is honest)
        self.disc = {}         # player -> frame at which the host reported it disconnected
        self.stuck = False
        self.disc_p = rng.choice([0.0, 0.01, 0.03, 0.1])

    def status(self, force=False):
        r = self.rng
        if not force and r.random() < 0.55:
            return ""
        if r.random() < self.disc_p and len(self.disc) < self.players:
            p = r.choice([q for q in range(self.players) if q not in self.disc])
            self.disc[p] = max(-1, self.next - r.choice([0, 1, 1, 2, 5]))
        ent = []
        for p in range(self.players):
            if p in self.disc:
                ent.append("1:%d" % self.disc[p])
            else:
                ent.append("0:%d" % max(-1, self.next - 1 - r.choice([0, 0, 1, 3])))
        return " status " + ",".join(ent)

    def send(self, count, first=None):
        if first is None:
            first = self.next
        self.lines.append("frames %d %d%s" % (first, count, self.status()))
        if first <= self.next:
            self.next = max(self.next, first + count)

    def advance(self, k=1):
        for _ in range(k):
            self.lines.append("advance")
            behind = self.next - 1 - self.cur
            if behind > 60:
                self.stuck = True
            elif behind >= 1:
                n = min(self.catchup, behind, 59) if behind > self.maxbehind else 1
                self.cur += n

    def sync(self):
        self.lines.append("sync")

def gen_steady(rng, frames):
    g = Gen(rng)
    if rng.random() < 0.3:
        g.advance(); g.lines.append("frames 0 2"); g.lines.append("poll")
    g.sync()
    while g.next < frames and not g.stuck:
        r = rng.random()
        if r < 0.75:
            g.send(rng.choice([1, 1, 1, 1, 2, 0, 3]))
            g.advance(rng.choice([1, 1, 1, 2]))
        elif r < 0.85:
            g.lines.append("poll")
        elif r < 0.92:
            # retransmission of frames the spectator already has, possibly with new ones
            back = rng.choice([1, 2, 5, 17, 40])
            first = max(0, g.next - back)
            g.send(rng.choice([back, back + 1, back + 3, 1]), first=first)
        elif r < 0.95:
            g.send(2, first=g.next + rng.choice([1, 2, 7]))      # a gap: the endpoint ignores it
        else:
            g.advance(rng.choice([2, 5]))
    g.advance(3)
    return g.lines

def gen_bursts(rng, frames, overrun_p=0.1):
    g = Gen(rng)
    g.sync()
    while g.next < frames and not g.stuck:
        behind = g.next - 1 - g.cur
        r = rng.random()
        if r < 0.5:
            burst = rng.choice([1, 5, 20, 40, 58, 59, 60, 61, 80, 130, rng.randrange(1, 131)])
            # stay (mostly) inside the ring so that the run goes on
            if behind + burst > 60 and rng.random() >= overrun_p:
                burst = max(0, rng.choice([60, 60, 59, 58, g.maxbehind, g.maxbehind + 1]) - behind)
            if rng.random() < 0.3 and burst > 3:
                a = rng.randrange(1, burst)
                g.send(a); g.send(burst - a)
            else:
                g.send(burst)
            g.advance(1)
        elif r < 0.9:
            g.advance(rng.choice([1, 2, 3, 10, 30]))
        else:
            g.lines.append("poll")
    g.advance(rng.choice([2, 70]))
    return g.lines

def gen_pause(rng, frames):
    g = Gen(rng)
    g.sync()
    while g.next < frames and not g.stuck:
        g.advance(rng.choice([3, 10, 40]))                         # nothing to replay: PredictionThreshold
        for _ in range(rng.choice([1, 2, 5])):
            g.send(rng.choice([1, 10, 30, 59]))
            if rng.random() < 0.5:
                g.lines.append("poll")
        g.advance(rng.choice([1, 5, 70, 140]))
    return g.lines

def gen_corner(rng, maxbehind, catchup):
    """Aims at behind = maxbehind, maxbehind+1, 59, 60, 61 with the given parameters."""
    out = []
    for target in (maxbehind, maxbehind + 1, 59, 60, 61):
        g = Gen(rng, players=rng.choice([1, 2]), maxbehind=maxbehind, catchup=catchup)
        g.sync()
        warm = rng.choice([0, 1, 7, 61, 125])
        for _ in range(warm):
            g.send(1); g.advance(1)
        g.send(target)
        g.lines.append("poll")
        g.advance(4)
        g.send(rng.choice([1, 60]))
        g.advance(3)
        out += g.lines
    return out

def gen_overrun(rng):
    g = Gen(rng)
    g.sync()
    for _ in range(rng.choice([0, 3, 30, 90])):
        g.send(1); g.advance(1)
    n = rng.choice([61, 62, 100, 130])
    if rng.random() < 0.5:
        g.send(n)
    else:
        for _ in range(n):
            g.send(1)
            if rng.random() < 0.1:
                g.lines.append("poll")
    g.advance(3)
    g.send(5); g.advance(2)
    return g.lines

ADV = re.compile(r"^(ok|err) (\S+) cur=(-?\d+) behind=(\S+)$")

def monitor(ctx, script, impl):
    """C06 (spectator half) checked directly on the real session's outputs, independent of the
    model: delivered frames are 0,1,2,... with the host's values, per call at most max(1, catchup)
    and more than one only when more than maxbehind frames were outstanding, a failing call
    consumes nothing and happens only with nothing outstanding (PredictionThreshold) or more than
    60 frames outstanding (SpectatorTooFarBehind), statuses are Confirmed/Disconnected with
    Disconnected only for players the host reported disconnected, never beyond what the host sent,
    no panic."""
    st = ctx.cov["monitors"].setdefault("spectator_session", {"calls": 0, "delivered": 0, "catchup_calls": 0, "toofar": 0, "threshold": 0, "disconnected_inputs": 0, "sessions": 0})
    sess_start = 0
    players = maxbehind = catchup = 0
    nextf = 0; sent_max = -1; cur = -1; discs = set(); dead = False; synced = False; honest = True
    def hit(cls, what, i):
        ctx.hit(cls, what, {"level": "spectator", "script": script[sess_start:i + 1][-400:], "index": i - sess_start})
    for i, (op, r) in enumerate(zip(script, impl)):
        t = op.split()
        if t[0] == "new":
            sess_start = i; st["sessions"] += 1
            kv = dict(a.split("=") for a in t[1:])
            players, maxbehind, catchup = int(kv["players"]), int(kv["maxbehind"]), int(kv["catchup"])
            nextf = 0; sent_max = -1; cur = -1; discs = set(); dead = (r != "ok"); synced = False; honest = True
            continue
        if dead:
            continue
        if r.startswith(("panic", "crash", "noresult")):
            hit("spectator-panic", "SpectatorSession panics/aborts on `%s`: %s" % (op, r[:80]), i)
            dead = True
            continue
        if t[0] == "sync":
            synced = r.startswith("ok running")
        if t[0] == "frames" and r == "ok":
            first, count = int(t[1]), int(t[2])
            if first > 0 and count > 0 and sent_max < 0:
                honest = False      # a host whose very first packet does not start at frame 0 (outside C06's premise)
            if first >= 0 and count > 0:
                sent_max = max(sent_max, first + count - 1)
            if len(t) > 4:
                for p, e in enumerate(t[4].split(",")):
                    if e.startswith("1:"):
                        discs.add(p)
            continue
        m = ADV.match(r) if t[0] == "advance" else None
        if t[0] == "advance" and not m:
            hit("spectator-output", "unexpected result of advance: %s" % r[:80], i); dead = True
            continue
        tm = re.search(r"cur=(-?\d+) behind=(\S+)$", r)
        if tm and tm.group(2) == "panic":
            hit("spectator-panic", "frames_behind_host panics after `%s`" % op, i); dead = True
            continue
        if t[0] == "advance":
            st["calls"] += 1
            ncur = int(m.group(3))
            if m.group(1) == "err":
                st["toofar"] += m.group(2) == "SpectatorTooFarBehind"; st["threshold"] += m.group(2) == "PredictionThreshold"
                b = int(m.group(4))
                if not honest:
                    pass
                elif (m.group(2) == "SpectatorTooFarBehind" and b <= 60) or (m.group(2) == "PredictionThreshold" and b != 0) or \
                   (m.group(2) == "NotSynchronized" and synced) or m.group(2).startswith("other"):
                    hit("spectator-spurious-error", "advance_frame returned Err(%s) with %d confirmed frames outstanding" % (m.group(2), b), i)
                if ncur != cur:
                    hit("spectator-lost-frames", "advance_frame returned Err(%s) but current_frame moved %d -> %d" % (m.group(2), cur, ncur), i)
            else:
                reqs = [] if m.group(2) == "-" else m.group(2).split(";")
                if len(reqs) > max(1, catchup):
                    hit("spectator-catchup", "one call delivered %d frames with catchup_speed %d" % (len(reqs), catchup), i)
                if len(reqs) > 1:
                    st["catchup_calls"] += 1
                for rq in reqs:
                    f, body = rq.split(":", 1)
                    f = int(f); ins = body.strip("()").split(",")
                    want = [str(value(p, f)) for p in range(players)]
                    if f != nextf:
                        hit("spectator-order", "delivered frame %d, expected frame %d" % (f, nextf), i)
                    if [x[:-1] for x in ins] != want:
                        hit("spectator-values", "frame %d delivered as %s, the host sent %s" % (f, body, want), i)
                    if f > sent_max:
                        hit("spectator-ahead", "frame %d delivered, the host only sent up to %d" % (f, sent_max), i)
                    for p, x in enumerate(ins):
                        if x[-1] not in "CD" or (x[-1] == "D" and p not in discs):
                            hit("spectator-status", "frame %d player %d has status %s" % (f, p, x[-1]), i)
                        st["disconnected_inputs"] += x[-1] == "D"
                    nextf += 1; st["delivered"] += 1
                if ncur != nextf - 1:
                    hit("spectator-order", "current_frame %d after %d delivered frames" % (ncur, nextf), i)
            cur = ncur
        # catch-up rule: more than one frame only if more than maxbehind were outstanding at the start
        if t[0] == "advance" and m.group(1) == "ok" and m.group(2) != "-":
            k = len(m.group(2).split(";"))
            start_behind = int(m.group(4)) + k
            if k > 1 and not start_behind > maxbehind:
                hit("spectator-catchup", "%d frames delivered with only %d outstanding (max_frames_behind %d)" % (k, start_behind, maxbehind), i)

def run_spectator_correspondence(ctx, scale=None):
    rng = ctx.rng
    big = ctx.thorough
    script = []
    fams = {}
    def add(name, lines):
        fams[name] = fams.get(name, 0) + len(lines)
        script.extend(lines)
    for _ in range(scale or (150 if big else 25)):
        add("steady", gen_steady(rng, rng.choice([30, 150, 400])))
    for _ in range(scale or (150 if big else 25)):
        add("bursts", gen_bursts(rng, rng.choice([200, 600, 1500])))
    for _ in range(scale or (80 if big else 12)):
        add("pauses", gen_pause(rng, rng.choice([100, 500])))
    for _ in range(scale or (100 if big else 15)):
        add("overrun", gen_overrun(rng))
    # long runs: thousands of frames, the ring wraps dozens of times
    for _ in range(scale or (10 if big else 2)):
        add("long", gen_bursts(rng, 6000 if big else 3000, overrun_p=0.0))
    # corners of (max_frames_behind, catchup_speed)
    mbs = list(range(1, 60)) if big else [1, 2, 9, 10, 30, 57, 58, 59]
    cps = list(range(1, 71)) if big else [1, 2, 3, 10, 58, 59, 60, 61, 70]
    pairs = [(m, c) for m in mbs for c in cps]
    if big:
        pairs = [pc for pc in pairs if pc[0] in (1, 2, 29, 58, 59) or pc[1] in (1, 2, 58, 59, 60, 61, 70) or rng.random() < 0.15]
    for m, c in pairs:
        add("corners", gen_corner(rng, m, c))
    add("invalid", ["new players=2 maxbehind=0 catchup=1", "new players=2 maxbehind=60 catchup=1", "new players=2 maxbehind=5 catchup=0",
                    "new players=0 maxbehind=5 catchup=1", "new players=1 maxbehind=59 catchup=70", "sync", "frames 0 60", "advance", "advance", "advance"])
    canon = lambda a: "panic" if a.startswith("panic") else a
    impl, model = ctx.correspond("spectator", script, "debug", canon=canon, label="spectator")
    monitor(ctx, script, impl)
    kinds = {}
    for op, r in zip(script, impl):
        k = op.split()[0] + ":" + " ".join(r.split()[:2] if r.startswith("err") else r.split()[:1])
        kinds[k] = kinds.get(k, 0) + 1
        if op == "advance":
            ctx.count(nontrivial_key=("spec", r) if r.startswith("ok") and ";" in r or "TooFar" in r else None)
    ctx.cov["input_distribution"]["spectator_ops"] = kinds
    ctx.cov["input_distribution"]["spectator_families_ops"] = fams
    return script, impl

def replay_spectator(ctx, rp):
    """Re-runs the script of a monitor hit on the real session; True if a monitor still fires."""
    before = len(ctx.hits)
    script = rp["script"]
    impl = ctx.run_impl("spectator", script, "debug")
    monitor(ctx, script, impl)
    for op, r in list(zip(script, impl))[-6:]:
        print("replay", op, "->", r[:160])
    return len(ctx.hits) > before
