"""Session-level checks built on the L4 simulation: which scenario families and which monitor
labels decide which property.  The proof side of each property is its coq/props/Cxx.v."""
from . import families as F
from .simrun import run_scenarios, replay as sim_replay

def sizes(ctx, quick, thorough):
    return thorough if ctx.thorough else quick

def _fields(obs, fields):
    if obs is None or fields is None:
        return obs
    return " ".join(t for t in obs.split() if t.split("=")[0] in fields)

def pairs_equal(ctx, pairs, res, family, peers=("1", "2"), label="C08", what="injected packets", fields=None):
    for c, d in pairs:
        rc, rd = res.get(c.name), res.get(d.name)
        if not rc or not rd:
            continue
        for peer in peers:
            if _fields(rc["obs"].get(peer), fields) != _fields(rd["obs"].get(peer), fields):
                ctx.hit("observables-changed", "%s [%s] the run with %s differs from the clean run at peer %s: %s vs %s" %
                        (label, d.name, what, peer, rd["obs"].get(peer), rc["obs"].get(peer)),
                        {"level": "sim", "family": family, "scenario": d.render(), "clean": c.render(), "label": label})
                break

def generic_run(ctx, labels, plan=(), needed_consts=(), extra=None, pair_what="injected packets", pair_fields=None, known_class=None):
    """plan: list of (family name, generator call returning list of Scen or list of pairs)."""
    ctx.needed_consts = list(needed_consts)
    ctx.proof_side()
    if not ctx.build_harness(("debug",)):
        return
    fams = []
    for name, make in plan:
        scs = make()
        fams.append(name)
        if scs and isinstance(scs[0], tuple):
            flat = [x for pr in scs for x in pr]
            res = run_scenarios(ctx, flat, labels, name, known_class=known_class)
            pairs_equal(ctx, scs, res, name, label=ctx.pid, what=pair_what, fields=pair_fields)
        else:
            run_scenarios(ctx, scs, labels, name, known_class=known_class)
    if extra:
        extra(ctx)
    ctx.cov["rule"] = ("scenario families %s: seeded generators of whole sessions (topology, delays, window, sparse saving, predictor, "
                       "tick schedule, per-packet faults) run on the real sessions under a virtual clock with implementation-side monitors; "
                       "a scenario is non-trivial when >= 30 frames were simulated; distinct = distinct observable digests" % ", ".join(fams))
    ctx.assumptions += ["virtual clock and in-memory network replace the OS clock and UDP (named runtime behaviour the model cannot exhibit)",
                        "hook RNG gives distinct handshake nonces and non-zero magic"]
