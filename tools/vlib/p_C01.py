"""C01 — every peer's confirmed timeline equals the serial replay of the true inputs."""
from . import families as F
from .simprops import generic_run, sizes, sim_replay
from .p_session import run_session_correspondence
LABELS = {"C01", "PANIC"}
def run(ctx):
    generic_run(ctx, LABELS, extra=run_session_correspondence, plan=[("edge", lambda: F.fam_edge(ctx.rng, sizes(ctx, 100, 1000), tag="c01e")), ("c01", lambda: F.fam_c01(ctx.rng, sizes(ctx, 300, 3000))), ("long", lambda: F.fam_long(ctx.rng, sizes(ctx, 12, 120)))])
def replay(ctx, path):
    return sim_replay(ctx, path, LABELS)
