"""Scenario generator for the L4 simulation level (harness `sim`).

A scenario is a topology + a timed schedule.  Schedules are built from per-peer tick patterns
(period, phase, stalls, bursts) merged on a virtual time line; the network is described per
directed link (latency, per-packet faults, outage windows)."""
import random

class Scen:
    def __init__(self, name, players=2, window=8, sparse=0, pred="repeat", desync=0, fps=60,
                 timeout=2000, notify=500, inputrun=3, seed=1, lat=10, expect=()):
        self.name = name
        self.cfg = dict(players=players, window=window, sparse=sparse, pred=pred, desync=desync, fps=fps,
                        timeout=timeout, notify=notify, inputrun=inputrun, seed=seed, lat=lat)
        self.expect = list(expect)
        self.peers, self.spectate, self.links = [], [], []
        self.events = []   # (time, order, tokens)
        self._n = 0

    def p2p(self, pid, local, delay=0, nodrain=0):
        self.peers.append("peer %d p2p local=%s delay=%d nodrain=%d" % (pid, ",".join(map(str, local)), delay, nodrain))
    def spec(self, pid, host, handle, catchup=1, maxbehind=10):
        self.peers.append("peer %d spec host=%d catchup=%d maxbehind=%d" % (pid, host, catchup, maxbehind))
        self.spectate.append("spectate %d %d %d" % (host, pid, handle))
    def link(self, a, b, lat=None, faults=(), outages=()):
        s = "link %d %d lat=%d" % (a, b, self.cfg["lat"] if lat is None else lat)
        if faults:
            s += " faults=" + ",".join("%d:%s:%d" % f for f in faults)
        if outages:
            s += " out=" + ",".join("%d-%d" % o for o in outages)
        self.links.append(s)
    def at(self, t, *toks):
        self._n += 1
        self.events.append((t, self._n, " ".join(str(x) for x in toks)))
    def ticks(self, pid, t0, t1, period=16, skip=(), kind="tick"):
        """tick `pid` every `period` ms in [t0,t1) except inside the (a,b) windows of `skip`"""
        t = t0
        while t < t1:
            if not any(a <= t < b for a, b in skip):
                self.at(t, kind, pid)
            t += period
    def render(self):
        out = ["scenario " + self.name,
               "cfg " + " ".join("%s=%s" % kv for kv in self.cfg.items()) + (" expect=" + ",".join(self.expect) if self.expect else "")]
        out += self.peers + self.spectate + self.links + ["begin"]
        now = 0
        for t, _, toks in sorted(self.events):
            if t > now:
                out.append("t %d" % (t - now)); now = t
            out.append(toks)
        out.append("end")
        return out

def parse_output(lines):
    """-> dict name -> {'hits': [(prop, class, what)], 'obs': {peer: str}, 'stat': [str]}"""
    res = {}
    for l in lines:
        p = l.split(" ", 4)
        if p[0] == "HIT" and len(p) >= 4:
            res.setdefault(p[3], {"hits": [], "obs": {}, "stat": []})["hits"].append((p[1], p[2], p[4] if len(p) > 4 else ""))
        elif p[0] == "OBS":
            q = l.split(" ", 3)
            res.setdefault(q[1], {"hits": [], "obs": {}, "stat": []})["obs"][q[2]] = q[3]
        elif p[0] == "STAT":
            res.setdefault(p[1], {"hits": [], "obs": {}, "stat": []})["stat"].append(l)
        elif p[0] == "END":
            res.setdefault(p[1], {"hits": [], "obs": {}, "stat": []})
    return res
