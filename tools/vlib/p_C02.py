"""C02 — the request list of every advance_frame call is executable and frame-consistent."""
from . import families as F
from .simprops import generic_run, sizes, sim_replay
from .p_session import run_session_correspondence
LABELS = {"C02", "PANIC"}
def run(ctx):
    generic_run(ctx, LABELS, extra=run_session_correspondence, plan=[("edge", lambda: F.fam_edge(ctx.rng, sizes(ctx, 120, 1200))), ("c01", lambda: F.fam_c01(ctx.rng, sizes(ctx, 250, 2500), tag="c02", windows=(1, 2, 3, 8, 12))), ("starve", lambda: F.fam_starve(ctx.rng, sizes(ctx, 80, 600))), ("spectator", lambda: F.fam_spectator(ctx.rng, sizes(ctx, 60, 500))), ("death2", lambda: F.fam_death(ctx.rng, sizes(ctx, 60, 500)))])
def replay(ctx, path):
    return sim_replay(ctx, path, LABELS)
