"""C08 — malformed or foreign packets are discarded without panic or effect.

Besides the endpoint correspondence and the injection families of the L4 simulation, the decoder itself is fed
hostile payloads (the F1 corpus, token sequences whose claimed run lengths sit at the arithmetic and size
limits, mutated real payloads): no panic, no abort, and no allocation beyond the documented bound - the packet
being dropped afterwards is not enough, the damage of an unbounded allocation is done before."""
from . import families as F
from .simprops import generic_run, sizes, sim_replay
from .p_endpoint import run_endpoint_correspondence
from . import p_C14
LABELS = {"C08", "C01", "C03", "PANIC"}

def run_hostile_payloads(ctx):
    rng = ctx.rng
    ops = ["dec %s %s" % (r, d) for r, d in p_C14.CORPUS_DEC]
    n = 20000 if ctx.thorough else 3000
    for _ in range(n):
        ops.append("dec %s %s" % (p_C14.HEX(p_C14.gen_bytes(rng, rng.choice([0, 4]), 2)), p_C14.HEX(p_C14.gen_token_payload(rng))))
    for prof in (("debug", "release") if ctx.thorough else ("debug",)):
        if prof not in ctx.bins:
            ctx.build_harness((prof,))
        impl = ctx.run_impl("codec", ops, prof)
        p_C14.check_dec_results(ctx, ops, impl, prof)
        ctx.cov["traces_validated_against_impl"] += len(ops)
    for op in ops[::7]:
        ctx.count(nontrivial_key=("hostile", op))

def extra(ctx):
    run_endpoint_correspondence(ctx)
    run_hostile_payloads(ctx)

def run(ctx):
    generic_run(ctx, LABELS, extra=extra, plan=[("inject_silent", lambda: F.fam_inject_silent(ctx.rng, sizes(ctx, 60, 600))), ("inject", lambda: F.fam_inject(ctx.rng, sizes(ctx, 150, 1500))), ("inject_loss", lambda: F.fam_inject_loss(ctx.rng, sizes(ctx, 60, 600)))])

def replay(ctx, path):
    import json
    body = json.load(open(path))
    codec = [h for h in body.get("failing_inputs", []) if h.get("replay", {}).get("level") == "codec"]
    if codec:
        return p_C14.replay(ctx, path)
    return sim_replay(ctx, path, LABELS)
