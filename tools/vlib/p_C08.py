"""C08 — malformed or foreign packets are discarded without panic or effect."""
from . import families as F
from .simprops import generic_run, sizes, sim_replay
from .p_endpoint import run_endpoint_correspondence
LABELS = {"C08", "C01", "C03", "PANIC"}
def run(ctx):
    generic_run(ctx, LABELS, extra=run_endpoint_correspondence, plan=[("inject_silent", lambda: F.fam_inject_silent(ctx.rng, sizes(ctx, 60, 600))), ("inject", lambda: F.fam_inject(ctx.rng, sizes(ctx, 150, 1500)))])
def replay(ctx, path):
    return sim_replay(ctx, path, LABELS)
