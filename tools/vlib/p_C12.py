"""C12 — connection lifecycle events are well formed and correctly timed."""
from . import families as F
from .simprops import generic_run, sizes, sim_replay
from .p_endpoint import run_endpoint_correspondence
LABELS = {"C12", "C07", "PANIC"}
def run(ctx):
    generic_run(ctx, LABELS, extra=run_endpoint_correspondence, plan=[("late_joiner_after_drop", lambda: F.fam_late_joiner_after_drop(ctx.rng, sizes(ctx, 40, 300))), ("handshake", lambda: F.fam_handshake(ctx.rng, sizes(ctx, 300, 3000))), ("sparse_polls", lambda: F.fam_sparse_polls(ctx.rng, sizes(ctx, 120, 1000))), ("poll_only", lambda: F.fam_poll_only(ctx.rng, sizes(ctx, 40, 300))), ("nodrain", lambda: F.fam_long(ctx.rng, sizes(ctx, 6, 60), tag="nd", duration=20000, nodrain=1)), ("lead", lambda: F.fam_lead(ctx.rng, sizes(ctx, 20, 100))), ("event_flood", lambda: F.fam_event_flood(ctx.rng, sizes(ctx, 12, 100))), ("silent_spectator", lambda: F.fam_silent_spectator(ctx.rng, sizes(ctx, 60, 500))), ("silent_spectator_burst", lambda: F.fam_silent_spectator_burst(ctx.rng, sizes(ctx, 40, 400))), ("paused_spectator", lambda: F.fam_paused_spectator(ctx.rng, sizes(ctx, 150, 1500)))])
def replay(ctx, path):
    return sim_replay(ctx, path, LABELS)
